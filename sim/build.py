"""Descriptor -> library objects, through the public constructors only, and a
canonical rendering of library objects back to plain data.

Type descriptors:   ["bool"] | ["int", lo, hi] | ["real", lo, hi] | ["user", name]
                    (lo/hi: int, "n/d" string or None)
Expression descr.:  ["and", e...] ["or", e...] ["not", e] ["implies", a, b] ["iff", a, b]
                    ["eq", a, b] ["le", a, b] ["lt", a, b] ["ge", a, b] ["gt", a, b]
                    ["plus", e...] ["minus", a, b] ["times", e...] ["div", a, b]
                    ["f", name, arg...] ["if", name, arg...] ["p", name] ["v", name, type]
                    ["o", name] ["int", n] ["real", "n/d"] ["bool", b]
                    ["exists", [[v, type]...], body] ["forall", [[v, type]...], body]
"""
import json
from collections import OrderedDict
from fractions import Fraction

import unified_planning as up
from unified_planning.environment import Environment
from unified_planning.model import (
    Fluent,
    Object,
    Parameter,
    Variable,
    InstantaneousAction,
    Problem,
    InterpretedFunction,
)
from unified_planning.model.operators import OperatorKind as OK

from .core import BuildError, SimFault


def frac(x):
    if x is None:
        return None
    if isinstance(x, (int, Fraction)):
        return x
    if isinstance(x, str):
        f = Fraction(x)
        return f
    raise BuildError(f"bad number {x!r}")


def num_const(x):
    """int stays int, 'n/d' becomes a Fraction (kept a Fraction even if integral)."""
    if isinstance(x, bool):
        raise BuildError("bool is not a number")
    if isinstance(x, int):
        return x
    return Fraction(x)


def subtype_of(tmap, t, anc):
    while t is not None:
        if t == anc:
            return True
        t = tmap.get(t)
    return False


def const_in_type(t, v, world):
    """Is the constant descriptor v a value of the type descriptor t?"""
    try:
        k = t[0]
        if k == "bool":
            return v[0] == "bool"
        if k in ("int", "real"):
            if v[0] not in ("int", "real"):
                return False
            c = Fraction(v[1])
            if k == "int" and c.denominator != 1:
                return False
            if t[1] is not None and c < Fraction(t[1]):
                return False
            if t[2] is not None and c > Fraction(t[2]):
                return False
            return True
        if v[0] != "o":
            return False
        ot = next((ot for o, ot in world.get("objects", []) if o == v[1]), None)
        return ot is not None and subtype_of(dict(world.get("types", [])), ot, t[1])
    except (IndexError, TypeError, ValueError, ZeroDivisionError):
        return False


def validate_world(world, strict=False):
    """A world descriptor must be consistent with itself (the minimiser shrinks numbers inside type
    bounds and tables; a script whose interpreted function returns values outside its declared
    type, or whose initial values lie outside the fluent's type, describes nothing)."""
    ftypes = {}
    for fd in world.get("fluents", []):
        ftypes[fd["name"]] = fd["type"]
        if fd.get("default") is not None and not const_in_type(fd["type"], fd["default"], world):
            raise BuildError(f"default of {fd['name']} outside its type")
    for iv in world.get("init", []):
        fe, v = iv
        if fe[1] in ftypes and not const_in_type(ftypes[fe[1]], v, world):
            raise BuildError(f"initial value of {fe[1]} outside its type")
    for d in world.get("ifuns", []):
        if not const_in_type(d["ret"], d["default"], world):
            raise BuildError(f"default of {d['name']} outside its return type")
        for key, v in d.get("table", []):
            if len(key) != len(d["params"]) or not const_in_type(d["ret"], v, world):
                raise BuildError(f"table of {d['name']} inconsistent with its signature")
            for kk, pt in zip(key, d["params"]):
                kv = ["o", kk] if pt[0] == "user" else (["bool", kk] if isinstance(kk, bool) else
                                                       ["int", kk] if isinstance(kk, int) else ["real", str(kk)])
                if strict and not const_in_type(pt, kv, world):
                    raise BuildError(f"table key of {d['name']} outside the parameter type")


    # interpreted functions are only applied inside their declared domain
    sigs = {d["name"]: d["params"] for d in world.get("ifuns", [])}

    def within(t, pt):
        if t[0] != pt[0] and not (t[0] == "int" and pt[0] == "real"):
            return False
        if t[0] in ("int", "real"):
            lo, hi = pt[1], pt[2]
            if lo is not None and (t[1] is None or Fraction(t[1]) < Fraction(lo)):
                return False
            if hi is not None and (t[2] is None or Fraction(t[2]) > Fraction(hi)):
                return False
        return True

    def walk(e):
        if isinstance(e, dict):
            for x in e.values():
                walk(x)
            return
        if not isinstance(e, list):
            return
        if e and e[0] == "if" and len(e) > 1 and e[1] in sigs:
            for a, pt in zip(e[2:], sigs[e[1]]):
                if isinstance(a, list) and a and a[0] == "f" and a[1] in ftypes and not within(ftypes[a[1]], pt):
                    raise BuildError(f"{e[1]} applied to {a[1]} whose type exceeds the parameter type")
                if isinstance(a, list) and a and a[0] in ("int", "real", "bool") and not const_in_type(pt, a, world):
                    raise BuildError(f"{e[1]} applied to a constant outside the parameter type")
        for x in e:
            walk(x)

    if sigs and strict:
        walk(world.get("actions", []))
        walk(world.get("goals", []))
        walk(world.get("invariants", []))


class World:
    """Library objects of one world descriptor inside one Environment."""

    def __init__(self, desc, env=None, callbacks=None, strict=False):
        self.desc = desc
        validate_world(desc, strict)
        self.env = env if env is not None else Environment()
        self.tm = self.env.type_manager
        self.em = self.env.expression_manager
        self.callbacks = callbacks  # object with .ifun_call(name, args) hook, or None
        self.types = {}
        self.objects = {}
        self.fluents = {}
        self.ifuns = {}
        self.variables = {}
        self.params = {}  # free-standing parameters (envhist)
        self.if_calls = {}
        for name, father in desc.get("types", []):
            f = self.types[father] if father is not None else None
            if father is not None and father not in self.types:
                raise BuildError(f"unknown father type {father}")
            self.types[name] = self.tm.UserType(name, f)
        for name, t in desc.get("objects", []):
            self.objects[name] = Object(name, self.type(["user", t]), self.env)
        for fd in desc.get("fluents", []):
            sig = OrderedDict((pn, self.type(pt)) for pn, pt in fd.get("params", []))
            self.fluents[fd["name"]] = Fluent(fd["name"], self.type(fd["type"]), sig, self.env)
        for d in desc.get("ifuns", []):
            self.ifuns[d["name"]] = self._make_ifun(d)
        for name, t in desc.get("params", []):
            self.params[name] = Parameter(name, self.type(t), self.env)

    # -- types
    def type(self, t):
        if not (isinstance(t, list) and t and isinstance(t[0], str)) or (t[0] in ("int", "real") and len(t) != 3) \
                or (t[0] == "user" and len(t) != 2):
            raise BuildError(f"bad type {t!r}")
        k = t[0]
        if k == "bool":
            return self.tm.BoolType()
        if k == "int":
            return self.tm.IntType(t[1], t[2])
        if k == "real":
            return self.tm.RealType(frac(t[1]), frac(t[2]))
        if k == "user":
            if t[1] not in self.types:
                raise BuildError(f"unknown type {t[1]}")
            return self.types[t[1]]
        raise BuildError(f"bad type {t!r}")

    def variable(self, name, t):
        if not isinstance(name, str) or not isinstance(t, list):
            raise BuildError(f"bad variable {name!r} {t!r}")
        key = (name, json.dumps(t))
        if key not in self.variables:
            self.variables[key] = Variable(name, self.type(t), self.env)
        return self.variables[key]

    # -- interpreted functions: table look-ups decided by the script
    def _make_ifun(self, d):
        table = {}
        for k, v in d.get("table", []):
            table.setdefault(tuple(k), v)  # the first entry for a key wins, as in refsem
        default = d["default"]
        name = d["name"]
        calls = self.if_calls.setdefault(name, [0])
        world = self

        def fn(*args):
            calls[0] += 1
            cb = world.callbacks
            if cb is not None:
                cb.ifun_call(name, calls[0], args)
            key = tuple(plain(a) for a in args)
            v = table.get(key, default)
            return py_value(v)

        sig = OrderedDict((f"a{i}", self.type(t)) for i, t in enumerate(d["params"]))
        return InterpretedFunction(name, self.type(d["ret"]), sig, fn, self.env)

    # -- expressions
    def expr(self, e, scope=None):
        """scope: dict name -> Parameter for action parameters."""
        em = self.em
        if not isinstance(e, list) or not e or not isinstance(e[0], str):
            raise BuildError(f"bad expression {e!r}")
        k = e[0]
        ARITY = {"not": 1, "implies": 2, "iff": 2, "eq": 2, "le": 2, "lt": 2, "ge": 2, "gt": 2,
                 "minus": 2, "div": 2, "p": 1, "v": 2, "o": 1, "int": 1, "real": 1, "bool": 1,
                 "exists": 2, "forall": 2}
        if k in ARITY and len(e) != ARITY[k] + 1:
            raise BuildError(f"malformed expression {e!r}")
        if k in ("f", "if") and (len(e) < 2 or not isinstance(e[1], str)):
            raise BuildError(f"malformed expression {e!r}")
        if k in ("exists", "forall", ):
            if not (isinstance(e[1], list) and e[1] and all(isinstance(x, list) and len(x) == 2 for x in e[1])):
                raise BuildError(f"malformed quantifier {e!r}")
        if k in ("p", "o") and not isinstance(e[1], str):
            raise BuildError(f"malformed expression {e!r}")
        if k == "int" and (isinstance(e[1], bool) or not isinstance(e[1], int)):
            raise BuildError(f"malformed expression {e!r}")
        if k == "real" and not isinstance(e[1], str):
            raise BuildError(f"malformed expression {e!r}")
        if k == "bool" and not isinstance(e[1], bool):
            raise BuildError(f"malformed expression {e!r}")
        sub = lambda i: self.expr(e[i], scope)
        subs = lambda: [self.expr(x, scope) for x in e[1:]]
        if True:
            if k == "and":
                return em.And(subs())
            if k == "or":
                return em.Or(subs())
            if k == "not":
                return em.Not(sub(1))
            if k == "implies":
                return em.Implies(sub(1), sub(2))
            if k == "iff":
                return em.Iff(sub(1), sub(2))
            if k == "eq":
                return em.Equals(sub(1), sub(2))
            if k == "le":
                return em.LE(sub(1), sub(2))
            if k == "lt":
                return em.LT(sub(1), sub(2))
            if k == "ge":
                return em.GE(sub(1), sub(2))
            if k == "gt":
                return em.GT(sub(1), sub(2))
            if k == "plus":
                return em.Plus(subs())
            if k == "minus":
                return em.Minus(sub(1), sub(2))
            if k == "times":
                return em.Times(subs())
            if k == "div":
                return em.Div(sub(1), sub(2))
            if k == "f":
                if e[1] not in self.fluents:
                    raise BuildError(f"unknown fluent {e[1]}")
                return em.FluentExp(self.fluents[e[1]], [self.expr(x, scope) for x in e[2:]])
            if k == "if":
                if e[1] not in self.ifuns:
                    raise BuildError(f"unknown ifun {e[1]}")
                return em.InterpretedFunctionExp(self.ifuns[e[1]], [self.expr(x, scope) for x in e[2:]])
            if k == "p":
                if scope is not None and e[1] in scope:
                    return em.ParameterExp(scope[e[1]])
                if e[1] in self.params:
                    return em.ParameterExp(self.params[e[1]])
                raise BuildError(f"unknown parameter {e[1]}")
            if k == "v":
                return em.VariableExp(self.variable(e[1], e[2]))
            if k == "o":
                if e[1] not in self.objects:
                    raise BuildError(f"unknown object {e[1]}")
                return em.ObjectExp(self.objects[e[1]])
            if k == "int":
                return em.Int(e[1])
            if k == "real":
                try:
                    fr = Fraction(e[1])
                except (ValueError, ZeroDivisionError):
                    raise BuildError(f"bad real {e!r}")
                return em.Real(fr)
            if k == "bool":
                return em.Bool(e[1])
            if k in ("exists", "forall"):
                vs = [self.variable(n, t) for n, t in e[1]]
                body = self.expr(e[2], scope)
                return em.Exists(body, *vs) if k == "exists" else em.Forall(body, *vs)
        raise BuildError(f"unknown operator {k}")

    # -- actions / problems
    def action(self, ad, sim_effects=None):
        sig = OrderedDict((pn, self.type(pt)) for pn, pt in ad.get("params", []))
        a = InstantaneousAction(ad["name"], sig, self.env)
        scope = {p.name: p for p in a.parameters}
        for pre in ad.get("pre", []):
            a.add_precondition(self.expr(pre, scope))
        for ed in ad.get("effects", []):
            self.add_effect(a, ed, scope)
        se = ad.get("simeff")
        if se is not None:
            a.set_simulated_effect(self.simulated_effect(se, scope))
        return a

    def simulated_effect(self, se, scope=None):
        """Simulated effect = table look-up on the values of some ground fluents."""
        import warnings
        from unified_planning.model import SimulatedEffect

        targets = [self.expr(fe, scope) for fe in se["fluents"]]
        reads = [self.expr(fe) for fe in se.get("reads", [])]
        table = [(list(k), vals) for k, vals in se.get("table", [])]
        default = se["default"]
        world = self

        def fn(problem, state, actual_params):
            cb = world.callbacks
            if cb is not None and hasattr(cb, "simeff_call"):
                cb.simeff_call(se.get("name", "simeff"))
            key = []
            for r in reads:
                v = state.get_value(r)
                key.append(plain(v.object() if v.is_object_exp() else v.constant_value()))
            for k, vals in table:
                if k == key:
                    return [world.expr(v) for v in vals]
            return [world.expr(v) for v in default]

        with warnings.catch_warnings():
            warnings.simplefilter("ignore")
            return SimulatedEffect(targets, fn)

    def add_effect(self, a, ed, scope):
        fl = self.expr(ed["fluent"], scope)
        val = self.expr(ed["value"], scope)
        cond = self.expr(ed["cond"], scope) if ed.get("cond") is not None else True
        fa = tuple(self.variable(n, t) for n, t in ed.get("forall", []))
        kind = ed.get("kind", "assign")
        if kind == "assign":
            a.add_effect(fl, val, cond, fa)
        elif kind == "inc":
            a.add_increase_effect(fl, val, cond, fa)
        elif kind == "dec":
            a.add_decrease_effect(fl, val, cond, fa)
        else:
            raise BuildError(f"bad effect kind {kind}")

    def problem(self, name="w"):
        d = self.desc
        p = Problem(name, self.env)
        for fd in d.get("fluents", []):
            dv = fd.get("default")
            if dv is None:
                p.add_fluent(self.fluents[fd["name"]])
            else:
                p.add_fluent(self.fluents[fd["name"]], default_initial_value=self.expr(dv))
        for o in self.objects.values():
            p.add_object(o)
        self.actions = {}
        for ad in d.get("actions", []):
            a = self.action(ad)
            self.actions[ad["name"]] = a
            p.add_action(a)
        for fe, v in d.get("init", []):
            p.set_initial_value(self.expr(fe), self.expr(v))
        for inv in d.get("invariants", []):
            p.add_state_invariant(self.expr(inv))
        for g in d.get("goals", []):
            p.add_goal(self.expr(g))
        return p


def py_value(v):
    """Descriptor constant -> python value handed back by an interpreted function."""
    if isinstance(v, list):
        if v[0] == "int":
            return v[1]
        if v[0] == "real":
            return Fraction(v[1])
        if v[0] == "bool":
            return v[1]
    return v


def plain(x):
    """Python value received by a callback -> hashable plain data."""
    if isinstance(x, bool):
        return x
    if isinstance(x, int):
        return x
    if isinstance(x, Fraction):
        return int(x) if x.denominator == 1 else str(x)
    if isinstance(x, float):
        return str(Fraction(x))
    if hasattr(x, "name"):
        return x.name
    return str(x)


# ------------------------------------------------------------------- rendering


def render_type(t):
    if t.is_bool_type():
        return ("bool",)
    if t.is_int_type():
        return ("int", str(t.lower_bound), str(t.upper_bound))
    if t.is_real_type():
        return ("real", str(t.lower_bound), str(t.upper_bound))
    if t.is_user_type():
        return ("user", t.name)
    return ("type", str(t))


def render(n, sort_vars=True):
    """Canonical rendering of an FNode as nested tuples; independent of node ids,
    environments and set iteration order."""
    memo = {}

    def go(x):
        r = memo.get(x)
        if r is not None:
            return r
        nt = x.node_type
        if nt == OK.BOOL_CONSTANT:
            r = ("bool", x.constant_value())
        elif nt == OK.INT_CONSTANT:
            r = ("int", x.constant_value())
        elif nt == OK.REAL_CONSTANT:
            r = ("real", str(x.constant_value()))
        elif nt == OK.FLUENT_EXP:
            r = ("f", x.fluent().name) + tuple(go(a) for a in x.args)
        elif nt == OK.INTERPRETED_FUNCTION_EXP:
            r = ("if", x.interpreted_function().name) + tuple(go(a) for a in x.args)
        elif nt == OK.PARAM_EXP:
            r = ("p", x.parameter().name, render_type(x.parameter().type))
        elif nt == OK.VARIABLE_EXP:
            r = ("v", x.variable().name, render_type(x.variable().type))
        elif nt == OK.OBJECT_EXP:
            r = ("o", x.object().name)
        elif nt in (OK.EXISTS, OK.FORALL):
            vs = tuple((v.name, render_type(v.type)) for v in x.variables())
            if sort_vars:
                vs = tuple(sorted(vs))
            r = (nt.name.lower(), vs, go(x.arg(0)))
        else:
            r = (nt.name.lower(),) + tuple(go(a) for a in x.args)
        memo[x] = r
        return r

    return go(n)


def to_json(r):
    if isinstance(r, tuple):
        return [to_json(x) for x in r]
    return r
