"""Library Problem -> world descriptor (the format of sim/refsem.py), reading the problem
only through public accessors.  Used by the stub planner of `metasim`, which must plan on
problems the library itself produced (compiled problems)."""
from fractions import Fraction

from unified_planning.model import InstantaneousAction
from unified_planning.model.operators import OperatorKind as OK


class Unsupported(Exception):
    pass


def type_desc(t):
    if t.is_bool_type():
        return ["bool"]
    if t.is_int_type():
        return ["int", t.lower_bound, t.upper_bound]
    if t.is_real_type():
        return ["real", None if t.lower_bound is None else str(Fraction(t.lower_bound)),
                None if t.upper_bound is None else str(Fraction(t.upper_bound))]
    if t.is_user_type():
        return ["user", t.name]
    raise Unsupported(f"type {t}")


_BIN = {OK.IMPLIES: "implies", OK.IFF: "iff", OK.EQUALS: "eq", OK.LE: "le", OK.LT: "lt", OK.MINUS: "minus", OK.DIV: "div"}
_NARY = {OK.AND: "and", OK.OR: "or", OK.PLUS: "plus", OK.TIMES: "times"}


def expr_desc(e):
    nt = e.node_type
    if nt == OK.BOOL_CONSTANT:
        return ["bool", e.constant_value()]
    if nt == OK.INT_CONSTANT:
        return ["int", e.constant_value()]
    if nt == OK.REAL_CONSTANT:
        return ["real", str(e.constant_value())]
    if nt == OK.OBJECT_EXP:
        return ["o", e.object().name]
    if nt == OK.PARAM_EXP:
        return ["p", e.parameter().name]
    if nt == OK.VARIABLE_EXP:
        return ["v", e.variable().name, type_desc(e.variable().type)]
    if nt == OK.FLUENT_EXP:
        return ["f", e.fluent().name] + [expr_desc(a) for a in e.args]
    if nt == OK.INTERPRETED_FUNCTION_EXP:
        return ["if", e.interpreted_function().name] + [expr_desc(a) for a in e.args]
    if nt == OK.NOT:
        return ["not", expr_desc(e.arg(0))]
    if nt in _NARY:
        return [_NARY[nt]] + [expr_desc(a) for a in e.args]
    if nt in _BIN:
        return [_BIN[nt], expr_desc(e.arg(0)), expr_desc(e.arg(1))]
    if nt in (OK.EXISTS, OK.FORALL):
        return ["exists" if nt == OK.EXISTS else "forall", [[v.name, type_desc(v.type)] for v in e.variables()],
                expr_desc(e.arg(0))]
    raise Unsupported(f"operator {nt}")


def problem_desc(problem, ifuns=()):
    """World descriptor of a (sequential, instantaneous-actions) problem."""
    types = []
    seen = set()

    def add_type(t):
        if t is None or t.name in seen:
            return
        add_type(t.father)
        seen.add(t.name)
        types.append([t.name, t.father.name if t.father is not None else None])

    for t in problem.user_types:
        add_type(t)
    objects = [[o.name, o.type.name] for o in problem.all_objects]
    fluents = []
    for f in problem.fluents:
        fd = {"name": f.name, "type": type_desc(f.type), "params": [[q.name, type_desc(q.type)] for q in f.signature],
              "default": None}
        for q in f.signature:
            if not q.type.is_user_type():
                raise Unsupported(f"fluent parameter of type {q.type}")
        dv = problem.fluents_defaults.get(f)
        if dv is not None:
            fd["default"] = expr_desc(dv)
        fluents.append(fd)
    init = [[expr_desc(k), expr_desc(v)] for k, v in problem.explicit_initial_values.items()]
    actions = []
    for a in problem.actions:
        if not isinstance(a, InstantaneousAction):
            raise Unsupported(f"action {a.name} is not instantaneous")
        if a.simulated_effect is not None:
            raise Unsupported("simulated effect")
        for q in a.parameters:
            if not q.type.is_user_type():
                raise Unsupported(f"action parameter of type {q.type}")
        effects = []
        for e in a.effects:
            kind = "assign" if e.is_assignment() else "inc" if e.is_increase() else "dec" if e.is_decrease() else None
            if kind is None:
                raise Unsupported("effect kind")
            effects.append({"kind": kind, "fluent": expr_desc(e.fluent), "value": expr_desc(e.value),
                            "cond": expr_desc(e.condition) if e.is_conditional() else None,
                            "forall": [[v.name, type_desc(v.type)] for v in e.forall]})
        actions.append({"name": a.name, "params": [[q.name, type_desc(q.type)] for q in a.parameters],
                        "pre": [expr_desc(c) for c in a.preconditions], "effects": effects})
    if problem.timed_effects or problem.timed_goals:
        raise Unsupported("timed effects / goals")
    return {"types": types, "objects": objects, "fluents": fluents, "init": init, "actions": actions,
            "goals": [expr_desc(g) for g in problem.goals],
            "invariants": [expr_desc(i) for i in problem.state_invariants], "ifuns": list(ifuns)}
