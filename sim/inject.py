"""Fault injectors.  All are installed from the harness; nothing in /repo changes."""
import os
import sys

import unified_planning

LIB_PREFIX = os.path.dirname(os.path.abspath(unified_planning.__file__)) + os.sep


_HANDLER_LINES = {}


def handler_lines(filename):
    """Line numbers inside `except` / `finally` bodies of a source file.  The injector
    places no fault there: a failure injected into failure-handling code is a double
    fault, and the statements found there (del of a slice, dict.clear, attribute
    resets) cannot fail for lack of memory anyway."""
    r = _HANDLER_LINES.get(filename)
    if r is None:
        import ast

        r = set()
        try:
            with open(filename) as f:
                tree = ast.parse(f.read())
            for node in ast.walk(tree):
                if isinstance(node, ast.Try):
                    bodies = [h.body for h in node.handlers] + [node.finalbody]
                    for body in bodies:
                        for st in body:
                            r.update(range(st.lineno, (st.end_lineno or st.lineno) + 1))
        except (OSError, SyntaxError):
            pass
        _HANDLER_LINES[filename] = r
    return r


class LineFault:
    """Counts `line` events in frames of the library while active and raises `exc`
    at event number `at` (1-based).  at=None: count only (dry run).

    CPython unsets the trace function when it raises, so at most one fault fires."""

    def __init__(self, at=None, exc=MemoryError):
        self.at = at
        self.exc = exc
        self.count = 0
        self.fired = False
        self.where = None

    def _global(self, frame, event, arg):
        if not frame.f_code.co_filename.startswith(LIB_PREFIX):
            return None
        # One tracer per frame.  Only a CHANGE of line inside a frame counts as a
        # fault position: CPython 3.12 sometimes repeats the line event of a line that
        # contains calls or conditional expressions, depending on interpreter-internal
        # state (measured: `a = -inf if x.lo is None else x.lo` gave 1 or 2 events for
        # the same execution), which would make positions irreproducible.
        hl = handler_lines(frame.f_code.co_filename)
        last = [None]

        def local(frame, event, arg):
            if event == "line":
                ln = frame.f_lineno
                if ln == last[0]:
                    return local
                last[0] = ln
                if ln in hl:
                    return local
                self.count += 1
                if self.count == self.at:
                    self.fired = True
                    self.where = (frame.f_code.co_filename[len(LIB_PREFIX):], ln, frame.f_code.co_name)
                    raise self.exc("injected by the simulator")
            return local

        return local

    def __enter__(self):
        self._prev = sys.gettrace()
        sys.settrace(self._global)
        return self

    def __exit__(self, *a):
        sys.settrace(self._prev)
        return False


class Callbacks:
    """Handed to build.World; decides whether call n of an interpreted function
    (counted within the armed operation) raises."""

    def __init__(self):
        self.armed = None  # (fn, nth)
        self.count = {}
        self.fired = False
        self.calls = 0

    def arm(self, fn, nth):
        self.armed = (fn, nth)
        self.count = {}
        self.fired = False

    def disarm(self):
        self.armed = None

    def ifun_call(self, name, total, args):
        from .core import SimFault

        self.calls += 1
        if self.armed is None:
            return
        self.count[name] = self.count.get(name, 0) + 1
        if name == self.armed[0] and self.count[name] == self.armed[1]:
            self.fired = True
            raise SimFault(f"injected failure of {name} call {self.armed[1]}")
