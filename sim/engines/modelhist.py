"""C22 / C23 / C24 -- model-building histories (engine `modelhist`).

Real code: Problem, ContingentProblem, InstantaneousAction, DurativeAction, the mixins
(fluents set, initial state, timed conditions/effects, metrics), effect.py conflict
bookkeeping, ActionInstance.
Stubs: simulated-effect callables.

One kind of run, three oracle sets:
 C22  an original and its clone(s) are fed the same operations (both, in seeded order, or
      one side only): same acceptance, stay equal, never influence each other;
 C23  after every accepted or rejected operation every stored value is type-compatible
      (harness relation) and initial values are constants; an operation made faulty by an
      incompatible value raises and changes nothing;
 C24  (a) the same multiset of insertions applied to fresh containers in several orders gives
      the same conflict verdict; (b) a shadow container that receives only the accepted
      insertions stays in step with the real one after every rejected insertion.
"""
import itertools
import json as _json
import warnings
from collections import OrderedDict


class json:  # noqa: N801 -- every rendering of script data is key-sorted, so that details do not depend on dict order
    loads = staticmethod(_json.loads)

    @staticmethod
    def dumps(o, **kw):
        kw.setdefault('sort_keys', True)
        return _json.dumps(o, **kw)

from fractions import Fraction

from ..core import Engine, stream, BuildError, digest, SimCancel
from ..build import World, render, render_type
from ..gen import ExprGen, gen_types, gen_fluents, values_of, subtype_of, FLUENT_TYPES

import unified_planning as up
from unified_planning.model import (
    Problem, InstantaneousAction, DurativeAction, Fluent, Object, StartTiming, EndTiming, GlobalStartTiming,
    TimeInterval, SimulatedEffect, MinimizeActionCosts, MinimizeSequentialPlanLength,
    MaximizeExpressionOnFinalState, Oversubscription,
)
from unified_planning.model.contingent import ContingentProblem, SensingAction
from unified_planning.model.htn import HierarchicalProblem, Method, Task, Subtask
from unified_planning.model.multi_agent import MultiAgentProblem, Agent
from unified_planning.plans import ActionInstance
from unified_planning.exceptions import UPConflictingEffectsException


# --------------------------------------------------------------------------- helpers


def timing_of(t):
    """Timing descriptor: None | ["start", d] | ["end", d] | ["gstart", d]"""
    if t is None:
        return None
    k, d = t[0], Fraction(t[1]) if len(t) > 1 else 0
    if k == "start":
        return StartTiming(d)
    if k == "end":
        return EndTiming() - d if d else EndTiming()
    if k == "gstart":
        return GlobalStartTiming(d)
    raise BuildError(t)


class Replica:
    """One problem under construction together with what the harness needs to address it."""

    def __init__(self, W, kind, name="P", initial_defaults=None, as_nodes=False):
        self.W = W
        self.kind = kind
        idf = {}
        for t, v in (initial_defaults or []):
            # as_nodes: the mapping already holds expressions (the form the readers use); the CALLER keeps it
            idf[W.type(t)] = W.expr(v[:2]) if as_nodes and v[0] in ("int", "real", "bool", "o") else pyconst(W, v)
        self.caller_idf = idf
        if kind == "ma":
            self.p = MultiAgentProblem(name, W.env, initial_defaults=idf)
            return
        cls = {"contingent": ContingentProblem, "hierarchical": HierarchicalProblem}.get(kind, Problem)
        self.p = cls(name, W.env, initial_defaults=idf)

    @classmethod
    def wrap(cls, W, kind, p):
        r = cls.__new__(cls)
        r.W, r.kind, r.p = W, kind, p
        r.caller_idf = None
        return r


def pyconst(W, v):
    """A value descriptor handed to the API the way a user would: python literals for
    numbers/bools, Object for objects, FNode for anything else."""
    k = v[0]
    if len(v) > 2 and v[2] == "node" and k in ("int", "real", "bool", "o"):
        # the same constant handed over as an expression node instead of a python value / model object
        return W.expr(v[:2])
    if k == "int":
        return v[1]
    if k == "real":
        return Fraction(v[1])
    if k == "bool":
        return v[1]
    if k == "o":
        if v[1] not in W.objects:
            raise BuildError(v)
        return W.objects[v[1]]
    return W.expr(v)


def desc_compatible(t, v, world):
    """Harness relation on descriptors: is constant descriptor v a value of type descriptor t?"""
    tmap = dict(world["types"])
    k = t[0]
    if k == "bool":
        return v[0] == "bool"
    if k in ("int", "real"):
        if v[0] not in ("int", "real"):
            return False
        c = Fraction(v[1])
        if k == "int" and c.denominator != 1:
            return False
        if k == "int" and v[0] == "real" and len(v) > 2 and v[2] == "node":
            # an explicit REAL_CONSTANT node (not a python number, which is promoted to Int): its type is real
            return False
        if t[1] is not None and c < Fraction(t[1]):
            return False
        if t[2] is not None and c > Fraction(t[2]):
            return False
        return True
    if v[0] != "o":
        return False
    ot = next((ot for o, ot in world["objects"] if o == v[1]), None)
    return ot is not None and subtype_of(tmap, ot, t[1])


CONST_KINDS = ("int", "real", "bool", "o")


def value_fault(R, op, world):
    """Does this operation try to store an incompatible (or non-constant) value ON THIS
    REPLICA?  Decided from the data with the harness relation, never from the generator's
    intention (the minimiser and one-sided operations can change what an operation means).
    Returns None or a reason."""
    k = op["op"]
    ftypes = {f["name"]: f["type"] for f in world["fluents"]}
    if isinstance(R.p, MultiAgentProblem):
        return None
    try:
        if k == "set_init":
            t = ftypes[op["fluent"][1]]
            v = op["value"]
            if v[0] not in CONST_KINDS:
                return "non-constant initial value"
            return None if desc_compatible(t, v, world) else "incompatible initial value"
        if k == "add_fluent" and op.get("default") is not None:
            return None if desc_compatible(op["fluent"]["type"], op["default"], world) else "incompatible default"
        if k in ("act_add_effect", "add_timed_effect"):
            ed = op["effect"]
            if ed["value"][0] in CONST_KINDS:
                t = ftypes[ed["fluent"][1]]
                if ed.get("kind", "assign") != "assign" and ed["value"][0] in ("int", "real") and t[0] in ("int", "real"):
                    return None  # an increment is not a value of the fluent: only its kind is judged
                return None if desc_compatible(t, ed["value"], world) else "incompatible effect value"
            return None
        if k == "action_instance":
            if not R.p.has_action(op["action"]):
                return None
            a = R.p.action(op["action"])
            if len(a.parameters) != len(op["params"]):
                return None
            for prm, v in zip(a.parameters, op["params"]):
                if v[0] not in CONST_KINDS:
                    return None
                node = R.W.expr(v)
                if compatible(prm.type, node) is not None:
                    return "incompatible action-instance parameter"
            return None
    except (KeyError, IndexError, BuildError):
        return None
    return None


def scope_of(action):
    return {p.name: p for p in action.parameters}


def apply_op(R, op):
    """Performs one model-building operation on replica R.  Returns ("ok", info) or
    ("exc", class name).  BuildError = the script cannot be run (dangling reference)."""
    W, p = R.W, R.p
    k = op["op"]
    try:
        with warnings.catch_warnings():
            warnings.simplefilter("ignore")
            return ("ok", _apply(W, R, p, k, op))
    except BuildError:
        raise
    except (Exception, SimCancel) as ex:
        return ("exc", type(ex).__name__)


def find_action(p, name):
    if not p.has_action(name):
        raise BuildError(f"no action {name}")
    return p.action(name)


def _effect_args(W, ed, scope):
    fl = W.expr(ed["fluent"], scope)
    val = pyconst(W, ed["value"]) if ed["value"][0] in ("int", "real", "bool", "o") else W.expr(ed["value"], scope)
    if ed.get("deep"):
        # a legal but very deep value expression (built iteratively): accepted like any other, but str() of it --
        # which the library calls to render a conflict message -- overflows the interpreter stack
        em = W.env.expression_manager
        v_ = em.auto_promote(val)[0]
        for n_ in range(int(ed["deep"])):
            v_ = em.Plus(v_, 1) if n_ % 2 else em.Minus(v_, 1)
        val = v_
    if ed.get("xreal") and ed["value"][0] in ("int", "real"):
        # an explicit REAL_CONSTANT node, also for an integral value (python numbers are auto-promoted to Int)
        val = W.env.expression_manager.Real(Fraction(ed["value"][1]))
    cond = W.expr(ed["cond"], scope) if ed.get("cond") is not None else True
    fa = tuple(W.variable(n, t) for n, t in ed.get("forall", []))
    return fl, val, cond, fa


def _add_effect(W, container, ed, scope, timing=None):
    fl, val, cond, fa = _effect_args(W, ed, scope)
    kind = ed.get("kind", "assign")
    if isinstance(container, InstantaneousAction):
        fn = {"assign": container.add_effect, "inc": container.add_increase_effect,
              "dec": container.add_decrease_effect}[kind]
        return fn(fl, val, cond, fa)
    if isinstance(container, DurativeAction):
        fn = {"assign": container.add_effect, "inc": container.add_increase_effect,
              "dec": container.add_decrease_effect}[kind]
        return fn(timing_of(timing), fl, val, cond, fa)
    if isinstance(container, Problem):
        fn = {"assign": container.add_timed_effect, "inc": container.add_increase_effect,
              "dec": container.add_decrease_effect}[kind]
        return fn(timing_of(timing), fl, val, cond, fa)
    raise BuildError("bad container")


def make_simeff(W, se, scope):
    targets = [W.expr(fe, scope) for fe in se["fluents"]]
    vals = se["values"]

    def fn(problem, state, actual):
        return [W.expr(v) for v in vals]
    # one callable per descriptor so that clones / replicas compare equal
    key = json.dumps(se, sort_keys=True)
    cache = W.__dict__.setdefault("_simeff_fns", {})
    fn = cache.setdefault(key, fn)
    with warnings.catch_warnings():
        warnings.simplefilter("ignore")
        return SimulatedEffect(targets, fn)


def build_action(W, ad):
    sig = OrderedDict((pn, W.type(pt)) for pn, pt in ad.get("params", []))
    if ad.get("durative"):
        a = DurativeAction(ad["name"], sig, W.env)
        a.set_fixed_duration(ad.get("duration", 2))
        scope = scope_of(a)
        for iv, c in ad.get("conds", []):
            a.add_condition(TimeInterval(timing_of(iv[0]), timing_of(iv[1])), W.expr(c, scope))
        for t, ed in ad.get("effects", []):
            _add_effect(W, a, ed, scope, t)
        return a
    if ad.get("sensing"):
        a = SensingAction(ad["name"], sig, W.env)
    else:
        a = InstantaneousAction(ad["name"], sig, W.env)
    scope = scope_of(a)
    if ad.get("sensing"):
        a.add_observed_fluents([W.expr(o, scope) for o in ad.get("observed", [])])
    for pre in ad.get("pre", []):
        a.add_precondition(W.expr(pre, scope))
    for ed in ad.get("effects", []):
        _add_effect(W, a, ed, scope)
    return a


def _apply_ma(W, p, k, op):
    def agent(name):
        if not p.has_agent(name):
            raise BuildError(f"no agent {name}")
        return p.agent(name)

    def add_ag_fluent(ag, fd, public, default):
        if fd["name"] not in W.fluents:
            raise BuildError(fd["name"])
        f = W.fluents[fd["name"]]
        kw = {} if default is None else {"default_initial_value": pyconst(W, default)}
        (ag.add_public_fluent if public else ag.add_private_fluent)(f, **kw)

    if k == "add_object":
        if op["obj"] not in W.objects:
            raise BuildError(op["obj"])
        p.add_object(W.objects[op["obj"]])
    elif k == "ma_env_fluent":
        fd = op["fluent"]
        if fd["name"] not in W.fluents:
            raise BuildError(fd["name"])
        kw = {} if op.get("default") is None else {"default_initial_value": pyconst(W, op["default"])}
        p.ma_environment.add_fluent(W.fluents[fd["name"]], **kw)
    elif k == "add_agent":
        ag = Agent(op["name"], p)
        for fd, public, default in op.get("fluents", []):
            add_ag_fluent(ag, fd, public, default)
        for ad in op.get("actions", []):
            ag.add_action(build_action(W, ad))
        p.add_agent(ag)
    elif k == "agent_add_fluent":
        add_ag_fluent(agent(op["agent"]), op["fluent"], op.get("public", False), op.get("default"))
    elif k == "agent_add_action":
        agent(op["agent"]).add_action(build_action(W, op["action"]))
    elif k == "agent_act_add_effect":
        ag = agent(op["agent"])
        if not ag.has_action(op["action"]):
            raise BuildError(op["action"])
        a = ag.action(op["action"])
        _add_effect(W, a, op["effect"], scope_of(a))
    elif k == "agent_add_goal":
        ag = agent(op["agent"])
        (ag.add_public_goal if op.get("public") else ag.add_private_goal)(W.expr(op["goal"]))
    elif k == "set_init":
        fe = W.expr(op["fluent"])
        if op.get("agent"):
            fe = W.em.Dot(agent(op["agent"]), fe)
        p.set_initial_value(fe, pyconst(W, op["value"]))
    elif k == "add_goal":
        g = W.expr(op["goal"])
        if op.get("agent"):
            g = W.em.Dot(agent(op["agent"]), g)
        p.add_goal(g)
    else:
        raise BuildError(f"unknown multi-agent op {k}")
    return None


def _apply(W, R, p, k, op):
    if isinstance(p, MultiAgentProblem):
        return _apply_ma(W, p, k, op)
    if k == "add_fluent":
        fd = op["fluent"]
        if fd["name"] not in W.fluents:
            raise BuildError(fd["name"])
        f = W.fluents[fd["name"]]
        if op.get("default") is None:
            p.add_fluent(f)
        elif op.get("deep"):
            v_ = W.expr(op["default"])
            for n_ in range(int(op["deep"])):
                v_ = W.em.Plus(v_, 1) if n_ % 2 else W.em.Minus(v_, 1)
            p.add_fluent(f, default_initial_value=v_)
        else:
            p.add_fluent(f, default_initial_value=pyconst(W, op["default"]))
        return None
    if k == "add_object":
        if op["obj"] not in W.objects:
            raise BuildError(op["obj"])
        p.add_object(W.objects[op["obj"]])
        return None
    if k == "caller_mutates_defaults":
        # not a library call: the caller changes ITS OWN mapping, the one it passed as initial_defaults
        idf = getattr(R, "caller_idf", None)
        if idf is None:
            raise BuildError("this replica was not built from a caller's mapping")
        idf[W.type(op["type"])] = W.expr(op["value"][:2])
        return None
    if k == "add_objects_bulk":
        if any(o not in W.objects for o in op["objs"]):
            raise BuildError(op["objs"])

        def feed():
            # user-supplied iterable; it may be cut short by a cancellation (a BaseException, like KeyboardInterrupt)
            for n_, o in enumerate(op["objs"]):
                if op.get("raise_after") is not None and n_ == op["raise_after"]:
                    raise SimCancel("injected by the simulator")
                yield W.objects[o]
            if op.get("raise_after") is not None and op["raise_after"] >= len(op["objs"]):
                raise SimCancel("injected by the simulator")
        p.add_objects(feed())
        return None
    if k == "add_action":
        p.add_action(build_action(W, op["action"]))
        return None
    if k == "act_add_effect":
        a = find_action(p, op["action"])
        _add_effect(W, a, op["effect"], scope_of(a), op.get("timing"))
        return None
    if k == "act_add_observed":
        a = find_action(p, op["action"])
        if not isinstance(a, SensingAction):
            raise BuildError("not a sensing action")
        a.add_observed_fluent(W.expr(op["fluent"], scope_of(a)))
        return None
    if k == "act_add_pre":
        a = find_action(p, op["action"])
        if isinstance(a, DurativeAction):
            a.add_condition(StartTiming(), W.expr(op["pre"], scope_of(a)))
        else:
            a.add_precondition(W.expr(op["pre"], scope_of(a)))
        return None
    if k == "act_set_simeff":
        a = find_action(p, op["action"])
        se = make_simeff(W, op["simeff"], scope_of(a))
        if isinstance(a, DurativeAction):
            a.set_simulated_effect(timing_of(op.get("timing") or ["start", 0]), se)
        else:
            a.set_simulated_effect(se)
        return None
    if k == "add_goal":
        p.add_goal(W.expr(op["goal"]))
        return None
    if k == "add_timed_goal":
        iv = op["interval"]
        p.add_timed_goal(TimeInterval(timing_of(iv[0]), timing_of(iv[1])), W.expr(op["goal"]))
        return None
    if k == "add_timed_effect":
        _add_effect(W, p, op["effect"], None, op["timing"])
        return None
    if k == "add_traj":
        em = W.em
        e = W.expr(op["e"])
        c = {"always": em.Always, "sometime": em.Sometime, "at_most_once": em.AtMostOnce}[op["kind"]](e)
        p.add_trajectory_constraint(c)
        return None
    if k == "add_invariant":
        p.add_state_invariant(W.expr(op["e"]))
        return None
    if k == "add_metric":
        m = op["metric"]
        if m["kind"] == "plan_length":
            p.add_quality_metric(MinimizeSequentialPlanLength(environment=W.env))
        elif m["kind"] == "max_final":
            p.add_quality_metric(MaximizeExpressionOnFinalState(W.expr(m["e"]), environment=W.env))
        elif m["kind"] == "oversub":
            p.add_quality_metric(Oversubscription({W.expr(g): w for g, w in m["goals"]}, environment=W.env))
        elif m["kind"] == "costs":
            costs = {}
            for an, c in m["costs"]:
                costs[find_action(p, an)] = W.expr(c, scope_of(find_action(p, an)))
            p.add_quality_metric(MinimizeActionCosts(costs, default=W.em.Int(1), environment=W.env))
        else:
            raise BuildError(m)
        return None
    if k == "set_init":
        p.set_initial_value(W.expr(op["fluent"]), pyconst(W, op["value"]))
        return None
    if k == "oneof":
        p.add_oneof_initial_constraint([W.expr(f) for f in op["fluents"]])
        return None
    if k == "or":
        p.add_or_initial_constraint([W.expr(f) for f in op["fluents"]])
        return None
    if k == "unknown":
        p.add_unknown_initial_constraint(W.expr(op["fluent"]))
        return None
    if k == "action_instance":
        a = find_action(p, op["action"])
        return ActionInstance(a, [pyconst(W, v) for v in op["params"]])
    if k in ("add_task", "add_method", "method_add_pre", "method_add_subtask", "tn_add_subtask", "tn_set_ordered"):
        if not isinstance(p, HierarchicalProblem):
            raise BuildError("not a hierarchical problem")
        return _apply_htn(W, p, k, op)
    raise BuildError(f"unknown op {k}")


def _task_or_action(p, name):
    if p.has_task(name):
        return p.get_task(name)
    if p.has_action(name):
        return p.action(name)
    raise BuildError(f"no task or action {name}")


def _subtask(W, p, st, scope):
    # add_subtask(task, *args) builds the Subtask in the GLOBAL environment; the harness works in its own
    return Subtask(_task_or_action(p, st["what"]), *[W.expr(a, scope) for a in st.get("args", [])], ident=st["ident"],
                   _env=W.env)


def _apply_htn(W, p, k, op):
    if k == "add_task":
        # add_task(name, **params) builds the Task in the GLOBAL environment; the harness works in its own
        p.add_task(Task(op["name"], OrderedDict((pn, W.type(pt)) for pn, pt in op.get("params", [])), W.env))
        return None
    if k == "add_method":
        md = op["method"]
        if not p.has_task(md["task"]):
            raise BuildError(md["task"])
        m = Method(md["name"], OrderedDict((pn, W.type(pt)) for pn, pt in md.get("params", [])), W.env)
        task = p.get_task(md["task"])
        m.set_task(task, *[m.parameter(a) for a in md.get("task_args", [])])
        scope = {q.name: q for q in m.parameters}
        for pre in md.get("pre", []):
            m.add_precondition(W.expr(pre, scope))
        for st in md.get("subtasks", []):
            m.add_subtask(_subtask(W, p, st, scope))
        p.add_method(m)
        return None
    if k == "method_add_pre":
        if op["method"] not in [m.name for m in p.methods]:
            raise BuildError(op["method"])
        m = p.method(op["method"])
        m.add_precondition(W.expr(op["pre"], {q.name: q for q in m.parameters}))
        return None
    if k == "method_add_subtask":
        if op["method"] not in [m.name for m in p.methods]:
            raise BuildError(op["method"])
        m = p.method(op["method"])
        st = op["subtask"]
        m.add_subtask(_subtask(W, p, st, {q.name: q for q in m.parameters}))
        return None
    if k == "tn_add_subtask":
        st = op["subtask"]
        p.task_network.add_subtask(_subtask(W, p, st, None))
        return None
    if k == "tn_set_ordered":
        subs = [s_ for s_ in p.task_network.subtasks if s_.identifier in op["idents"]]
        if len(subs) < 2:
            raise BuildError("not enough subtasks")
        p.task_network.set_ordered(*subs)
        return None
    raise BuildError(k)


# ---------------------------------------------------------------- snapshots / invariants


def _s(x):
    try:
        return str(x)
    except RecursionError:
        return "<an expression too deep to print>"


def eff_str(e):
    return f"{e.kind.name}|{_s(e.fluent)}|{_s(e.value)}|{_s(e.condition)}|{[str(v) for v in e.forall]}"


def snap_action(a):
    out = {"name": a.name, "params": [(p.name, str(p.type)) for p in a.parameters], "class": type(a).__name__}
    if isinstance(a, InstantaneousAction):
        out["pre"] = [str(x) for x in a.preconditions]
        out["effects"] = [eff_str(e) for e in a.effects]
        out["simeff"] = None if a.simulated_effect is None else [str(f) for f in a.simulated_effect.fluents]
        if isinstance(a, SensingAction):
            out["observed"] = [str(f) for f in a.observed_fluents]
    else:
        out["duration"] = str(a.duration)
        out["conds"] = sorted((str(i), [str(c) for c in cl]) for i, cl in a.conditions.items())
        out["effects"] = sorted((str(t), [eff_str(e) for e in el]) for t, el in a.effects.items())
        out["simeff"] = sorted((str(t), [str(f) for f in se.fluents]) for t, se in a.simulated_effects.items())
    return out


def snapshot_ma(p):
    s = {
        "name": p.name,
        "objects": [(o.name, str(o.type)) for o in p.all_objects],
        "env_fluents": [(f.name, str(f.type)) for f in p.ma_environment.fluents],
        "env_defaults": sorted((f.name, str(v)) for f, v in p.ma_environment.fluents_defaults.items()),
        "init": sorted((str(k), str(v)) for k, v in p.explicit_initial_values.items()),
        "goals": [str(g) for g in p.goals],
        "agents": [{
            "name": a.name,
            "fluents": [(f.name, str(f.type)) for f in a.fluents],
            "public": [f.name for f in a.public_fluents],
            "defaults": sorted((f.name, str(v)) for f, v in a.fluents_defaults.items()),
            "actions": [snap_action(x) for x in a.actions],
            "public_goals": [str(g) for g in a.public_goals],
            "private_goals": [str(g) for g in a.private_goals],
        } for a in p.agents],
    }
    return json.dumps(s, sort_keys=True)


def snapshot(p):
    """Rendering of every public collection of a problem (always compared with an earlier
    snapshot of the SAME object)."""
    if isinstance(p, MultiAgentProblem):
        return snapshot_ma(p)
    s = {
        "name": p.name,
        "fluents": [(f.name, str(f.type), [(q.name, str(q.type)) for q in f.signature]) for f in p.fluents],
        "fluent_defaults": sorted((f.name, _s(v)) for f, v in p.fluents_defaults.items()),
        "type_defaults": sorted((str(t), _s(v)) for t, v in p.initial_defaults.items()),
        "init": sorted((str(k), _s(v)) for k, v in p.explicit_initial_values.items()),
        "objects": [(o.name, str(o.type)) for o in p.all_objects],
        "types": [str(t) for t in p.user_types],
        "actions": [snap_action(a) for a in p.actions],
        "goals": [str(g) for g in p.goals],
        "timed_goals": sorted((str(i), [str(g) for g in gl]) for i, gl in p.timed_goals.items()),
        "timed_effects": sorted((str(t), [eff_str(e) for e in el]) for t, el in p.timed_effects.items()),
        "traj": [str(c) for c in p.trajectory_constraints],
        "metrics": [str(m) for m in p.quality_metrics],
    }
    if isinstance(p, HierarchicalProblem):
        s["tasks"] = sorted(str(t) for t in p.tasks)
        s["methods"] = sorted(repr(m) for m in p.methods)
        s["tn"] = [repr(st) for st in p.task_network.subtasks] + [str(c) for c in p.task_network.constraints]
        # what a subtask RUNS is part of the problem: an action reached through a subtask must be the problem's own
        s["tn_tasks"] = [snap_action(st.task) if isinstance(st.task, (InstantaneousAction, DurativeAction)) else st.task.name
                         for st in p.task_network.subtasks]
        s["method_tasks"] = sorted((m.name, [snap_action(st.task) if isinstance(st.task, (InstantaneousAction, DurativeAction))
                                             else st.task.name for st in m.subtasks]) for m in p.methods)
    if isinstance(p, ContingentProblem):
        s["or"] = [[str(f) for f in c] for c in p.or_constraints]
        s["oneof"] = [[str(f) for f in c] for c in p.oneof_constraints]
        s["hidden"] = sorted(str(f) for f in p.hidden_fluents)
    return json.dumps(s, sort_keys=True)


def kind_of_type(t):
    if t.is_bool_type():
        return "bool"
    if t.is_int_type():
        return "int"
    if t.is_real_type():
        return "real"
    if t.is_user_type():
        return "user"
    return "other"


def user_subtype(t, anc):
    while t is not None:
        if t is anc or (t.name == anc.name):
            return True
        t = t.father
    return False


def compatible(ftype, v):
    """The harness's own compatibility relation between a declared type and a stored value
    node: Boolean/Boolean, numeric with int inside real and constants inside the bounds,
    user-type subtyping.  Returns None if compatible, else a reason."""
    fk = kind_of_type(ftype)
    if v.is_bool_constant():
        return None if fk == "bool" else f"Boolean constant stored for {ftype}"
    if v.is_int_constant() or v.is_real_constant():
        if fk not in ("int", "real"):
            return f"numeric constant {v} stored for {ftype}"
        c = Fraction(v.constant_value())
        if fk == "int" and c.denominator != 1:
            return f"non-integral constant {v} stored for {ftype}"
        if fk == "int" and v.is_real_constant():
            return f"real constant node {v} stored for {ftype}"
        if ftype.lower_bound is not None and c < ftype.lower_bound:
            return f"constant {v} below the lower bound of {ftype}"
        if ftype.upper_bound is not None and c > ftype.upper_bound:
            return f"constant {v} above the upper bound of {ftype}"
        return None
    if v.is_object_exp():
        if fk != "user":
            return f"object {v} stored for {ftype}"
        return None if user_subtype(v.object().type, ftype) else f"object {v} of type {v.object().type} stored for {ftype}"
    # a non-constant expression: only the kind is judged (bounds of expressions are intervals)
    vk = kind_of_type(v.type)
    if fk == "bool":
        return None if vk == "bool" else f"{vk} expression {_s(v)} stored for {ftype}"
    if fk == "int":
        return None if vk == "int" else f"{vk} expression {_s(v)} stored for {ftype}"
    if fk == "real":
        return None if vk in ("int", "real") else f"{vk} expression {_s(v)} stored for {ftype}"
    if fk == "user":
        return None if vk == "user" and user_subtype(v.type, ftype) else f"{vk} expression {_s(v)} stored for {ftype}"
    return None


def stored_value_problems(p):
    """Every stored value that is not type-compatible / not constant where it must be."""
    bad = []
    if isinstance(p, MultiAgentProblem):
        return bad  # C23 is not anchored in the multi-agent model
    for fe, v in p.explicit_initial_values.items():
        if not v.is_constant():
            bad.append(f"initial value of {fe} is the non-constant expression {_s(v)}")
        else:
            r = compatible(fe.fluent().type, v)
            if r:
                bad.append(f"initial value of {fe}: {r}")
    for f, v in p.fluents_defaults.items():
        if not v.is_constant():
            bad.append(f"default of fluent {f.name} is the non-constant expression {_s(v)}")
        else:
            r = compatible(f.type, v)
            if r:
                bad.append(f"default of fluent {f.name}: {r}")
    for t, v in p.initial_defaults.items():
        if any(f.type == t for f in p.fluents):
            r = compatible(t, v) if v.is_constant() else f"non-constant per-type default {_s(v)}"
            if r:
                bad.append(f"per-type default for {t}: {r}")
    effs = []
    for a in p.actions:
        if isinstance(a, InstantaneousAction):
            effs += [(a.name, e) for e in a.effects]
        elif isinstance(a, DurativeAction):
            for t, el in a.effects.items():
                effs += [(f"{a.name}@{t}", e) for e in el]
    for t, el in p.timed_effects.items():
        effs += [(f"problem@{t}", e) for e in el]
    for where, e in effs:
        r = compatible(e.fluent.type, e.value)
        if r:
            bad.append(f"effect {e} of {where}: {r}")
    return bad


# ------------------------------------------------------------------------------ engine


class ModelHist(Engine):
    name = "modelhist"
    props = ("C22", "C23", "C24")
    budgets = {"quick": 60.0, "thorough": 540.0}

    @property
    def nruns(self):
        # the permutation histories of C24 are short; the replica histories of C22 / C23 are not
        return {"quick": 8000 if self.prop == "C24" else 4000, "thorough": 300000}
    real_components = (
        "Problem, ContingentProblem (clone, __eq__, kind)", "InstantaneousAction, DurativeAction (clone, effects, "
        "conflict bookkeeping)", "FluentsSetMixin, InitialStateMixin, TimedCondsEffs, MetricsMixin",
        "effect.check_conflicting_effects / check_conflicting_simulated_effects", "plans.ActionInstance",
    )
    stub_components = ("simulated-effect callables",)
    assumptions = (
        "equality between replicas is the library's own __eq__; independence and atomicity are judged on a harness "
        "snapshot of the same object before/after",
        "bounds are judged for constants only; for non-constant effect values only the kind (Boolean / int / real / "
        "user subtype) is judged",
    )

    @property
    def rule(self):
        common = ("script = vocabulary (2-level types, objects, 4-7 fluents) + 12-45 model-building operations "
                  "(add_fluent with/without default, add_object, add_action instantaneous/durative, add effect / "
                  "increase / decrease / precondition / simulated effect to an action, goals, timed goals, timed effects, "
                  "trajectory constraints, all four metric kinds, set_initial_value, contingent constraints and sensing actions with observed "
                  "fluents, HTN tasks / methods / subtasks, multi-agent agents / fluents / actions / goals, ActionInstance; bounded real types "
                  "with fractional bounds, per-type defaults keyed by unbounded types), ~25% of "
                  "them made faulty on purpose (incompatible value of every kind, conflicting effects of every pairing, "
                  "duplicate names incl. names of user types, fluents and objects, values too deep to print, a bulk add_objects cut short by a "
                  "cancellation; in one run in five a chain of user types 3-13 levels deep with a side branch, objects and fluents at its deepest levels); ")
        if self.prop == "C22":
            return common + ("every replica is shadowed by a clone-free twin built from scratch by the operations delivered to it "
                             "(same acceptance required); one-sided effect pairs aimed at one fluent and timing across replicas; "
                             "clone taken at 1-3 seeded points; each later operation is delivered to original and clone "
                             "(in seeded order) or to one side only. non-trivial = >= 1 rejected operation delivered to "
                             "both AND >= 1 one-sided operation AND >= 3 operations judged after the clone; distinct = "
                             "digest of the (operation kind, outcome class) sequence")
        if self.prop == "C23":
            return common + ("after every operation every stored value is checked. non-trivial = >= 1 operation made "
                             "faulty by an incompatible value followed by >= 3 judged operations on the same replica; "
                             "distinct = digest of the (operation kind, outcome class) sequence")
        return ("script = one container kind (instantaneous action / one timing of a durative action / one timing of "
                "the problem) + a multiset of 2-5 insertions (assign/increase/decrease, conditional or not, same or "
                "different fluents and values incl. Int n vs explicit Real n, forall, simulated effect writing 1 fluent or, in 30% of the scripts, 2-16 fluents) applied to fresh containers "
                "(in 30% of the scripts replaced by their clone() after the k-th insertion of every order; in 30% the later insertions go "
                "alternately to the container and to its clone, each compared with a container of its own) in 2-6 seeded "
                "permutations (all when <= 4 insertions) -- same conflict verdict required -- and then 3-8 more "
                "insertions on the first container with a shadow container receiving only the accepted ones. non-trivial "
                "= some insertion was rejected AND >= 2 later insertions were judged against the shadow; distinct = "
                "digest of the (insertion kind, outcome class) sequence")

    def profiles(self, tier):
        if self.prop == "C24":
            return ["perm"]
        if self.prop == "C22":
            return ["classical", "temporal", "contingent", "hierarchical", "temporal", "hierarchical", "ma"]
        return ["classical", "temporal", "contingent", "classical"]

    # ----------------------------------------------------------------- vocabulary
    def gen_vocab(self, rw):
        types, objs = gen_types(rw)
        tnames = [t for t, _ in types]
        fluents = gen_fluents(rw, types, rw.randint(4, 7), kinds=("bool", "bool", "int", "real", "user", "uint", "breal", "fbreal", "ubint", "lbint"))
        fluents[0]["type"] = ["bool"]
        fluents[1]["type"] = ["int", 0, 5]
        fluents[2]["type"] = ["user", "T"]
        return {"types": types, "objects": objs, "fluents": fluents}

    # ------------------------------------------------------------- effect makers
    def gen_effect(self, r, world, g, fluents, faulty=None):
        """A (mostly well-typed) effect descriptor over the given fluents."""
        tmap = dict(world["types"])
        objs = world["objects"]
        fd = r.choice(fluents)
        t = fd["type"]
        fa = []
        target = ["f", fd["name"]]
        for _, pt in fd["params"]:
            if r.random() < 0.25:
                vn = f"e{len(fa)}"
                fa.append([vn, pt])
                target.append(["v", vn, pt])
            else:
                target.append(g.obj_expr(pt[1], 0))
        kind = "assign"
        if t[0] in ("int", "real") and r.random() < 0.45:
            kind = r.choice(["inc", "dec"])
        vals = values_of(t, objs, tmap)
        if t[0] == "bool":
            value = ["bool", r.random() < 0.5]
        elif t[0] in ("int", "real"):
            value = r.choice(vals) if r.random() < 0.7 else ["plus", ["f", fd["name"]] + target[2:], ["int", 1]]
            if value[0] == "plus" and fa:
                value = r.choice(vals)
        else:
            value = r.choice(vals) if vals else None
        if value is None:
            return None
        cond = None
        if r.random() < 0.3:
            bf = [f for f in fluents if f["type"][0] == "bool" and not f["params"]]
            cond = ["f", r.choice(bf)["name"]] if bf else None
        ed = {"kind": kind, "fluent": target, "value": value, "cond": cond, "forall": fa}
        if faulty == "value":
            ed["value"], ed["why"] = self.wrong_value(r, t, objs, tmap)
            if kind != "assign" and ed["value"][0] in ("int", "real"):
                ed["kind"] = "assign"
        return ed

    @staticmethod
    def clash_with(r, world, pe):
        """An unconditional effect aimed at the fluent of an earlier effect pe: other kind, or
        another value."""
        fd = next(f for f in world["fluents"] if f["name"] == pe["fluent"][1])
        t = fd["type"]
        vals = values_of(t, world["objects"], dict(world["types"]))
        if not vals:
            return None
        ed = {"fluent": pe["fluent"], "cond": None, "forall": pe.get("forall", []), "kind": "assign",
              "value": r.choice(vals)}
        if t[0] in ("int", "real"):
            if pe.get("kind", "assign") == "assign":
                ed["kind"] = r.choice(["inc", "dec", "assign"])
            else:
                ed["kind"] = r.choice(["assign", "assign", pe["kind"]])
        return ed

    @staticmethod
    def wrong_value(r, t, objs, tmap):
        """A value that is NOT type-compatible with type descriptor t, and why."""
        k = t[0]
        if k == "bool":
            return r.choice([["int", 5], ["real", "1/2"], ["o", objs[0][0]]]), "non-Boolean value for a Boolean fluent"
        if k == "int":
            c = [["bool", True], ["real", "1/2"], ["o", objs[0][0]]]
            if t[2] is not None:
                c.append(["int", int(t[2]) + 4])
            if t[1] is not None:
                c.append(["int", int(t[1]) - 3])
            # an integral value inside the bounds, handed over as an explicit Real constant node
            c.append(["real", str((t[1] if t[1] is not None else 0) + 1), "node"])
            return r.choice(c), "value outside an int type"
        if k == "real":
            c = [["bool", False], ["o", objs[0][0]]]
            if t[2] is not None:
                c.append(["real", str(Fraction(t[2]) + Fraction(7, 2))])
                # the integer next to the bound on the outside
                c.append(["int", int(Fraction(t[2])) + 1])
                c.append(["int", int(Fraction(t[2])) + 1])
            if t[1] is not None:
                lo = Fraction(t[1])
                c.append(["int", (lo.numerator // lo.denominator) - (1 if lo.denominator == 1 else 0)])
            return r.choice(c), "value outside a real type"
        # user type: an object of an unrelated type, or of a strict supertype
        bad = [o for o, ot in objs if not subtype_of(tmap, ot, t[1])]
        c = [["int", 1], ["bool", True]] + [["o", o] for o in bad]
        return r.choice(c), "value outside a user type"

    # ------------------------------------------------------------------ generate
    def generate(self, seed, profile, tier):
        if self.prop == "C24":
            return self.generate_perm(seed, tier)
        if profile == "ma":
            return self.generate_ma(seed, tier)
        rw, ro, rs = stream(seed, "world"), stream(seed, "ops"), stream(seed, "sched")
        world = self.gen_vocab(rw)
        # round 8 (scale): a DEEP chain of user types below T (3-13 levels; decided by a stream of its own), objects at
        # the deepest levels and on a side branch next to the deepest one, and fluents typed with the deepest types
        rdeep = stream(seed, "deep")
        if rdeep.random() < 0.2:
            k = rdeep.randint(3, 13)
            parent = "T"
            for j in range(k):
                world["types"].append([f"D{j}", parent])
                parent = f"D{j}"
            world["types"].append(["Dx", f"D{k - 2}"])
            deep_objs = [["da", f"D{k - 1}"], ["db", f"D{k - 2}"], ["dc", "Dx"], ["dd", f"D{rdeep.randrange(k)}"]]
            rdeep.shuffle(deep_objs)
            world["objects"][1:1] = deep_objs
            world["fluents"][3:3] = [{"name": "fd0", "type": ["user", f"D{k - 1}"], "params": []},
                                     {"name": "fd1", "type": ["user", rdeep.choice(["Dx", f"D{k - 2}"])], "params": []}]
        tmap = dict(world["types"])
        objs = world["objects"]
        fl_all = world["fluents"]
        kind = {"contingent": "contingent", "hierarchical": "hierarchical"}.get(profile, "problem")
        tasks, methods, tn_idents, n_ident = {}, {}, [], 0
        init_defaults = []
        if rw.random() < 0.4:
            init_defaults.append([["bool"], ["bool", False]])
        if rw.random() < 0.3:
            init_defaults.append([["int", 0, 5], ["int", rw.randint(0, 5)]])
        # defaults declared for the unbounded numeric types, with values that bounded fluents could not hold
        if rw.random() < 0.25:
            init_defaults.append([["int", None, None], ["int", rw.choice([-3, 0, 2, 9])]])
        if rw.random() < 0.25:
            init_defaults.append([["real", None, None], rw.choice([["real", "-1/2"], ["int", 7], ["real", "9/2"], ["int", 1]])])
        # a default for a user type that has sub-types: it is a default for fluents of THAT type only
        if rw.random() < 0.25:
            parents = sorted({f for _, f in world["types"] if f is not None})
            if parents:
                pt = rw.choice(parents)
                exact = [o for o, ot in world["objects"] if ot == pt]
                if exact:
                    init_defaults.append([["user", pt], ["o", rw.choice(exact)]])
        idf_faulty = None
        if rw.random() < 0.08:
            t = rw.choice([["bool"], ["int", 0, 5], ["user", "T"]])
            v, why = self.wrong_value(rw, t, world["objects"], dict(world["types"]))
            init_defaults = [d for d in init_defaults if d[0] != t] + [[t, v]]
            idf_faulty = why
        ops = []
        added_fl, added_obj, actions = [], [], {}
        timed_prior = []
        g = None

        def regen():
            nonlocal g
            w2 = {"types": world["types"], "objects": [o for o in objs if o[0] in added_obj], "fluents": added_fl}
            g = ExprGen(ro, w2, [], quant=False, ifuns=False, div=False, const_range=(0, 3))

        # a base: some objects, fluents, one action, so that later operations have something to talk about
        for o, _ in objs[: (max(2, len(objs) - 1) if ro.random() < 0.5 else 2)]:
            ops.append({"op": "add_object", "obj": o})
            added_obj.append(o)
        for fd in fl_all[:3]:
            vals = values_of(fd["type"], objs, tmap)
            ops.append({"op": "add_fluent", "fluent": fd, "default": ro.choice(vals) if vals and ro.random() < 0.5 else None})
            added_fl.append(fd)
        regen()
        def timed_effect_op(faulty, usable):
            fv = faulty and ro.random() < 0.5
            ed = self.gen_effect(ro, world, g, list(usable), faulty="value" if fv else None)
            if ed is None or ed["forall"]:
                return
            op = {"op": "add_timed_effect", "timing": ["gstart", ro.randint(1, 3)], "effect": ed}
            if fv:
                op["faulty"], op["why"] = "value", ed.pop("why")
            elif timed_prior and (faulty or ro.random() < 0.4):
                # aimed at the fluent and timing of an earlier timed effect: other kind, other value, or the same
                tm, pe = ro.choice(timed_prior)
                ed2 = self.clash_with(ro, world, pe)
                if ed2 is not None:
                    op = {"op": "add_timed_effect", "timing": tm, "effect": ed2, "faulty": "maybe-conflict"}
                    ed = ed2
            if op.get("faulty") != "value":
                timed_prior.append((op["timing"], ed))
            ops.append(op)

        nclones = rs.choice([1, 1, 2, 3])
        nops = ro.randint(12, 45) * (stream(seed, "size").choice([1, 1, 1, 2, 3]) if tier == "thorough" else 1)
        clone_at = sorted(rs.sample(range(len(ops) + 1, len(ops) + nops), min(nclones, nops - 1)))
        n_act = 0
        while len(ops) < nops + 5:
            r = ro.random()
            faulty = ro.random() < 0.25
            usable = [f for f in added_fl if all(any(subtype_of(tmap, ot, pt[1]) for o, ot in objs if o in added_obj)
                                                 for _, pt in f["params"])]
            if profile == "temporal" and usable and ro.random() < 0.12:
                timed_effect_op(faulty, usable)
                continue
            if kind == "hierarchical" and ro.random() < 0.35:
                tn = [t_ for t_, _ in world["types"]]
                x = ro.random()
                if methods and x > 0.2 and ro.random() < 0.35:
                    x = ro.choice([0.5, 0.65])   # edit an existing method (what a shared Method object betrays)
                if x < 0.2 or not tasks:
                    name = f"t{len(tasks) + 1}"
                    params = [["x", ["user", ro.choice(tn)]]] if ro.random() < 0.5 else []
                    op = {"op": "add_task", "name": name, "params": params}
                    if faulty and tasks:
                        op["name"], op["faulty"] = ro.choice(sorted(tasks) + [t for t, _ in world["types"]]), "duplicate"
                    else:
                        tasks[name] = params
                    ops.append(op)
                    continue
                n_ident += 1

                def subtask(param_names):
                    cands = [(n_, ps_) for n_, ps_ in tasks.items()] + \
                            [(n_, ad_["params"]) for n_, ad_ in actions.items() if not ad_.get("durative")]
                    what, ps_ = ro.choice(cands)
                    args = []
                    for _, pt in ps_:
                        mine = [pn for pn, ptt in param_names if subtype_of(tmap, ptt[1], pt[1])]
                        objs_ = [o for o, ot in objs if o in added_obj and subtype_of(tmap, ot, pt[1])]
                        if mine and ro.random() < 0.6:
                            args.append(["p", ro.choice(mine)])
                        elif objs_:
                            args.append(["o", ro.choice(objs_)])
                        else:
                            return None
                    return {"what": what, "args": args, "ident": f"st{n_ident}"}

                if x < 0.45:
                    tname = ro.choice(sorted(tasks))
                    mparams = [[f"q{j}", pt] for j, (_, pt) in enumerate(tasks[tname])]
                    if ro.random() < 0.4:
                        mparams.append(["extra", ["user", ro.choice(tn)]])
                    name = f"m{len(methods) + 1}"
                    g.params = [(n_, t_) for n_, t_ in mparams]
                    md = {"name": name, "params": mparams, "task": tname, "task_args": [q for q, _ in mparams[:len(tasks[tname])]],
                          "pre": [g.bool_expr(1)] if ro.random() < 0.5 else [], "subtasks": []}
                    g.params = []
                    st = subtask(mparams)
                    if st:
                        md["subtasks"].append(st)
                    op = {"op": "add_method", "method": md}
                    if faulty and methods:
                        md["name"], op["faulty"] = ro.choice(sorted(methods)), "duplicate"
                    else:
                        methods[name] = mparams
                    ops.append(op)
                elif x < 0.6 and methods:
                    mn = ro.choice(sorted(methods))
                    g.params = [(n_, t_) for n_, t_ in methods[mn]]
                    ops.append({"op": "method_add_pre", "method": mn, "pre": g.bool_expr(1)})
                    g.params = []
                elif x < 0.72 and methods:
                    mn = ro.choice(sorted(methods))
                    st = subtask(methods[mn])
                    if st:
                        ops.append({"op": "method_add_subtask", "method": mn, "subtask": st})
                elif x < 0.92:
                    st = subtask([])
                    if st:
                        op = {"op": "tn_add_subtask", "subtask": st}
                        if faulty and tn_idents:
                            st["ident"], op["faulty"] = ro.choice(tn_idents), "duplicate"
                        else:
                            tn_idents.append(st["ident"])
                        ops.append(op)
                elif len(tn_idents) >= 2:
                    ops.append({"op": "tn_set_ordered", "idents": ro.sample(tn_idents, 2)})
                continue
            if r < 0.10 and len(added_fl) < len(fl_all):
                fd = fl_all[len(added_fl)]
                vals = values_of(fd["type"], objs, tmap)
                op = {"op": "add_fluent", "fluent": fd, "default": ro.choice(vals) if vals and ro.random() < 0.5 else None}
                if faulty:
                    op["default"], op["why"] = self.wrong_value(ro, fd["type"], objs, tmap)
                    op["faulty"] = "value"
                    nums = [f for f in added_fl if f["type"][0] in ("int", "real") and not f["params"]]
                    if nums and ro.random() < 0.2:
                        # a NON-CONSTANT default, so deep that str() of it (the rejection message) overflows the stack
                        op["default"], op["deep"] = ["f", ro.choice(nums)["name"]], 1500
                        op["why"] = "non-constant default (too deep to print)"
                else:
                    added_fl.append(fd)
                    regen()
                ops.append(op)
            elif r < 0.14:
                if faulty and added_fl:
                    ops.append({"op": "add_fluent", "fluent": ro.choice(added_fl), "default": None, "faulty": "duplicate"})
                elif len(objs) - len(added_obj) >= 2 and ro.random() < 0.4:
                    # the bulk variant, fed by an iterable that may be cancelled after k objects
                    rest = [o for o, _ in objs[len(added_obj):len(added_obj) + 2]]
                    ra_ = ro.choice([None, None, 0, 1, 2])
                    ops.append({"op": "add_objects_bulk", "objs": rest, "raise_after": ra_})
                    added_obj.extend(rest if ra_ is None else rest[:ra_])
                    regen()
                elif len(added_obj) < len(objs):
                    o = objs[len(added_obj)][0]
                    ops.append({"op": "add_object", "obj": o})
                    added_obj.append(o)
                    regen()
            elif r < 0.26 and usable:
                # a new action
                n_act += 1
                name = f"a{n_act}"
                durative = profile == "temporal" and ro.random() < 0.6
                params = [["p0", ["user", ro.choice([t for t, _ in world["types"]])]]] if ro.random() < 0.5 else []
                g.params = [(n, t) for n, t in params]
                ad = {"name": name, "params": params, "durative": durative}
                if kind == "contingent" and ro.random() < 0.5:
                    ad["sensing"] = True
                    bf = [f for f in usable if f["type"][0] == "bool" and not f["params"]]
                    ad["observed"] = [["f", f["name"]] for f in ro.sample(bf, min(len(bf), ro.randint(0, 2)))]
                effs = []
                for _ in range(ro.randint(0, 2)):
                    ed = self.gen_effect(ro, world, g, usable)
                    if ed and not ed["cond"] is None or ed and all(e2["fluent"][1] != ed["fluent"][1] for e2 in effs):
                        effs.append(ed)
                if durative:
                    ad["duration"] = ro.randint(1, 4)
                    ad["effects"] = [[ro.choice([["start", 0], ["end", 0]]), e] for e in effs]
                    ad["conds"] = [[[["start", 0], ["end", 0]], g.bool_expr(1)]] if ro.random() < 0.5 else []
                else:
                    ad["effects"] = effs
                    ad["pre"] = [g.bool_expr(1)] if ro.random() < 0.6 else []
                g.params = []
                op = {"op": "add_action", "action": dict(ad)}
                if faulty and actions:
                    # a name already used: by an action, or by a user type / fluent / object of the world (refused
                    # only if that element is in the problem by now, which is for the replica to say)
                    pool = sorted(actions) + [t for t, _ in world["types"]] * 2 + [f["name"] for f in added_fl[:2]] \
                        + list(added_obj[:2])
                    op["action"] = dict(ad, name=ro.choice(pool))
                    op["faulty"] = "duplicate"
                else:
                    actions[name] = ad
                ops.append(op)
            elif r < 0.50 and actions and usable:
                an = ro.choice(sorted(actions))
                ad = actions[an]
                g.params = [(n, t) for n, t in ad["params"]]
                fk = None
                if faulty:
                    fk = ro.choice(["value", "conflict", "conflict"])
                ed = self.gen_effect(ro, world, g, usable, faulty="value" if fk == "value" else None)
                g.params = []
                if ed is None:
                    continue
                op = {"op": "act_add_effect", "action": an, "effect": ed}
                if ad.get("durative"):
                    op["timing"] = ro.choice([["start", 0], ["start", 0], ["end", 0], ["start", 1]])
                prior = ad.setdefault("_added", [])
                if fk == "value":
                    op["faulty"], op["why"] = "value", ed.pop("why")
                elif fk == "conflict":
                    op["faulty"] = "maybe-conflict"
                    ed["cond"] = None
                    same = [pe for pe in prior if pe[0] == op.get("timing")]
                    if same:
                        # aim at an effect already in this container: same fluent, clashing kind or value
                        pt_, pe = ro.choice(same)
                        ed2 = self.clash_with(ro, world, pe)
                        if ed2 is not None:
                            op["effect"] = ed = ed2
                if op.get("faulty") != "value":
                    prior.append((op.get("timing"), ed))
                ops.append(op)
            elif r < 0.55 and actions and usable:
                an = ro.choice(sorted(actions))
                ad = actions[an]
                fd = ro.choice([f for f in usable if not f["params"]] or usable)
                if fd["params"]:
                    continue
                vals = values_of(fd["type"], objs, tmap)
                if not vals:
                    continue
                op = {"op": "act_set_simeff", "action": an,
                      "simeff": {"fluents": [["f", fd["name"]]], "values": [ro.choice(vals)]}}
                if ad.get("durative"):
                    op["timing"] = ro.choice([["start", 0], ["end", 0]])
                ops.append(op)
            elif r < 0.60 and actions:
                an = ro.choice(sorted(actions))
                bf = [f for f in usable if f["type"][0] == "bool" and not f["params"]]
                if actions[an].get("sensing") and bf and ro.random() < 0.4:
                    ops.append({"op": "act_add_observed", "action": an, "fluent": ["f", ro.choice(bf)["name"]]})
                    continue
                g.params = [(n, t) for n, t in actions[an]["params"]]
                ops.append({"op": "act_add_pre", "action": an, "pre": g.bool_expr(1)})
                g.params = []
            elif r < 0.74 and usable:
                fd = ro.choice(usable)
                try:
                    fe = ["f", fd["name"]] + [["o", ro.choice([o for o, ot in objs if o in added_obj and subtype_of(tmap, ot, pt[1])])]
                                              for _, pt in fd["params"]]
                except IndexError:
                    continue
                vals = values_of(fd["type"], objs, tmap)
                if not vals:
                    continue
                op = {"op": "set_init", "fluent": fe, "value": ro.choice(vals)}
                if faulty:
                    if ro.random() < 0.25:
                        same = [f for f in usable if f["type"] == fd["type"] and not f["params"]]
                        if same:
                            op["value"] = ["f", ro.choice(same)["name"]]
                            op["faulty"], op["why"] = "nonconstant", "non-constant initial value"
                    else:
                        op["value"], op["why"] = self.wrong_value(ro, fd["type"], objs, tmap)
                        op["faulty"] = "value"
                ops.append(op)
            elif r < 0.80:
                ops.append({"op": "add_goal", "goal": g.bool_expr(ro.randint(0, 2))})
            elif r < 0.86 and profile == "temporal" and usable:
                if ro.random() < 0.5:
                    ops.append({"op": "add_timed_goal", "interval": [["gstart", ro.randint(1, 3)], ["gstart", ro.randint(4, 6)]],
                                "goal": g.bool_expr(1)})
                else:
                    timed_effect_op(faulty, usable)
            elif r < 0.90:
                ops.append({"op": ro.choice(["add_traj", "add_invariant"]), "kind": ro.choice(["always", "sometime", "at_most_once"]),
                            "e": g.bool_expr(1)})
            elif r < 0.94 and actions:
                mk = ro.choice(["plan_length", "max_final", "oversub", "costs"])
                m = {"kind": mk}
                if mk == "max_final":
                    nf = [f for f in usable if f["type"][0] in ("int", "real") and not f["params"]]
                    if not nf:
                        continue
                    m["e"] = ["f", ro.choice(nf)["name"]]
                elif mk == "oversub":
                    m["goals"] = [[g.bool_expr(1), ro.randint(1, 5)] for _ in range(2)]
                elif mk == "costs":
                    m["costs"] = [[an, ["int", ro.randint(1, 4)]] for an in sorted(actions)[:2]]
                ops.append({"op": "add_metric", "metric": m})
            elif r < 0.97 and actions:
                an = ro.choice(sorted(actions))
                ad = actions[an]
                ps = []
                ok = True
                for _, pt in ad["params"]:
                    c = [o for o, ot in objs if subtype_of(tmap, ot, pt[1])]
                    if not c:
                        ok = False
                        break
                    ps.append(["o", ro.choice(c)])
                if not ok:
                    continue
                op = {"op": "action_instance", "action": an, "params": ps}
                if faulty and ad["params"]:
                    op["params"] = [self.wrong_value(ro, ad["params"][0][1], objs, tmap)[0]]
                    op["faulty"], op["why"] = "value", "incompatible action-instance parameter"
                ops.append(op)
            elif kind == "contingent" and usable:
                bf = [f for f in usable if f["type"][0] == "bool" and not f["params"]]
                if not bf:
                    continue
                ck = ro.choice(["oneof", "or", "unknown"])
                if ck == "unknown":
                    ops.append({"op": "unknown", "fluent": ["f", ro.choice(bf)["name"]]})
                else:
                    ops.append({"op": ck, "fluents": [["f", f["name"]] for f in ro.sample(bf, min(len(bf), 2))]})
        # schedule: clones and delivery
        sched = []
        replicas = ["P0"]
        pos = 0
        for i, op in enumerate(ops):
            if clone_at and i == clone_at[0]:
                clone_at.pop(0)
                src = rs.choice(replicas)
                nid = f"P{len(replicas)}"
                sched.append({"op": "clone", "of": src, "id": nid})
                replicas.append(nid)
            to = list(replicas)
            cross = None
            if len(replicas) > 1:
                x = rs.random()
                effy = op["op"] in ("act_add_effect", "add_timed_effect") and op.get("effect", {}).get("cond") is None \
                    and not op.get("faulty")
                if x < 0.12 or (effy and x < 0.3):
                    to = [rs.choice(replicas)]
                    if effy and rs.random() < 0.6:
                        # ... and the OTHER side gets an effect aimed at the same fluent (same timing): what one replica
                        # was told must not decide what the other accepts
                        ed2 = self.clash_with(rs, world, op["effect"])
                        if ed2 is not None:
                            other = rs.choice([r_ for r_ in replicas if r_ != to[0]])
                            cross = dict(op, effect=ed2, to=[other], faulty="maybe-conflict")
                            if op["effect"].get("kind", "assign") == "assign" and ed2.get("kind") in ("inc", "dec"):
                                # the increase first, the assignment second (on the other side)
                                op, cross = dict(op, effect=ed2), dict(cross, effect=op["effect"])
                else:
                    rs.shuffle(to)
            sched.append(dict(op, to=to))
            if cross is not None:
                sched.append(cross)
        rc_ = stream(seed, "caller-mapping")
        idf_nodes = False
        if init_defaults and not idf_faulty and rc_.random() < 0.3:
            idf_nodes = True
            t_, _ = rc_.choice(init_defaults)
            bad, _why = self.wrong_value(rc_, t_, objs, tmap)
            if bad[0] in ("int", "real", "bool", "o"):
                sched.insert(rc_.randrange(1, max(2, len(sched) // 2)),
                             {"op": "caller_mutates_defaults", "type": t_, "value": bad[:2], "to": ["P0"]})
        # the same constants handed over as expression nodes instead of python values / model objects (30% of the
        # operations that carry a constant); decided by a stream of its own
        rn = stream(seed, "as-node")
        for op in sched:
            for holder, key in ((op, "value"), (op, "default"), (op.get("effect") or {}, "value")):
                v = holder.get(key)
                if isinstance(v, list) and len(v) == 2 and v[0] in ("int", "real", "bool", "o") and rn.random() < 0.3:
                    holder[key] = v + ["node"]
        return {"engine": self.name, "kind": kind, "initial_defaults": init_defaults, "idf_nodes": idf_nodes,
                "initial_defaults_faulty": idf_faulty, "world": world, "ops": sched}

    def generate_ma(self, seed, tier):
        rw, ro, rs = stream(seed, "world"), stream(seed, "ops"), stream(seed, "sched")
        world = self.gen_vocab(rw)
        for fd in world["fluents"]:
            fd["params"] = fd["params"][:1]
        tmap = dict(world["types"])
        objs = world["objects"]
        fl = world["fluents"]
        ops = [{"op": "add_object", "obj": o} for o, _ in objs]
        rd_ = stream(seed, "ma-defaults")
        ma_idf = []
        if rd_.random() < 0.4:
            ma_idf.append([["bool"], ["bool", rd_.random() < 0.5]])
        if rd_.random() < 0.3:
            ma_idf.append([["int", 0, 5], ["int", rd_.randint(0, 5)]])

        def dflt(fd, vals):
            # every multi-agent fluent gets a default (MultiAgentProblem.__eq__ needs all initial values): its own, or
            # the one declared for its type when the problem was created
            if any(t_ == fd["type"] for t_, _ in ma_idf) and rd_.random() < 0.6:
                return None
            return ro.choice(vals) if vals else None
        env_fl = fl[:2]
        for fd in env_fl:
            vals = values_of(fd["type"], objs, tmap)
            ops.append({"op": "ma_env_fluent", "fluent": fd, "default": dflt(fd, vals)})
        free = list(fl[2:])
        agents = {}   # name -> {"fluents": [fd], "actions": {name: ad}}
        n_act = 0

        def ag_action(agname, usable):
            nonlocal n_act
            n_act += 1
            g = ExprGen(ro, {"types": world["types"], "objects": objs, "fluents": usable}, [], quant=False, ifuns=False,
                        div=False, const_range=(0, 3))
            effs = []
            for _ in range(ro.randint(0, 2)):
                ed = self.gen_effect(ro, world, g, usable)
                if ed and all(e2["fluent"][1] != ed["fluent"][1] for e2 in effs):
                    effs.append(ed)
            return {"name": f"act{n_act}", "params": [], "durative": False, "effects": effs,
                    "pre": [g.bool_expr(1)] if ro.random() < 0.5 else []}

        def new_agent():
            name = f"ag{len(agents) + 1}"
            mine = []
            for _ in range(ro.randint(1, 2)):
                if free:
                    mine.append(free.pop(0))
            fls = []
            for fd in mine:
                vals = values_of(fd["type"], objs, tmap)
                fls.append([fd, ro.random() < 0.5, dflt(fd, vals)])
            acts = [ag_action(name, mine + env_fl)] if mine else []
            agents[name] = {"fluents": mine, "actions": {a["name"]: a for a in acts}}
            return {"op": "add_agent", "name": name, "fluents": fls, "actions": acts}

        ops.append(new_agent())
        nops = ro.randint(10, 35)
        nclones = rs.choice([1, 1, 2])
        clone_at = sorted(rs.sample(range(len(ops) + 1, len(ops) + nops), min(nclones, nops - 1)))
        while len(ops) < nops + 6:
            r = ro.random()
            faulty = ro.random() < 0.2
            an = ro.choice(sorted(agents))
            ag = agents[an]
            if r < 0.12 and (free or faulty):
                op = new_agent() if free else {"op": "add_agent", "name": an, "fluents": [], "actions": []}
                if faulty:
                    op = {"op": "add_agent", "name": ro.choice(sorted(agents) + [t for t, _ in world["types"]]), "fluents": [],
                          "actions": [], "faulty": "duplicate"}
                ops.append(op)
            elif r < 0.22 and free:
                fd = free.pop(0)
                vals = values_of(fd["type"], objs, tmap)
                ops.append({"op": "agent_add_fluent", "agent": an, "fluent": fd, "public": ro.random() < 0.5,
                            "default": dflt(fd, vals)})
                ag["fluents"].append(fd)
            elif r < 0.27 and ag["fluents"] and faulty:
                ops.append({"op": "agent_add_fluent", "agent": an, "fluent": ro.choice(ag["fluents"]), "public": False,
                            "default": None, "faulty": "duplicate"})
            elif r < 0.40 and ag["fluents"]:
                ad = ag_action(an, ag["fluents"] + env_fl)
                if faulty and ag["actions"]:
                    ad["name"] = ro.choice(sorted(ag["actions"]))
                    ops.append({"op": "agent_add_action", "agent": an, "action": ad, "faulty": "duplicate"})
                else:
                    ag["actions"][ad["name"]] = ad
                    ops.append({"op": "agent_add_action", "agent": an, "action": ad})
            elif r < 0.58 and ag["actions"]:
                usable = ag["fluents"] + env_fl
                g = ExprGen(ro, {"types": world["types"], "objects": objs, "fluents": usable}, [], quant=False, ifuns=False,
                            div=False, const_range=(0, 3))
                ed = self.gen_effect(ro, world, g, usable, faulty="value" if faulty and ro.random() < 0.5 else None)
                if ed is None:
                    continue
                ed.pop("why", None)
                ops.append({"op": "agent_act_add_effect", "agent": an, "action": ro.choice(sorted(ag["actions"])), "effect": ed})
            elif r < 0.68 and ag["fluents"]:
                bf = [f for f in ag["fluents"] if f["type"][0] == "bool" and not f["params"]]
                if bf:
                    ops.append({"op": "agent_add_goal", "agent": an, "goal": ["f", ro.choice(bf)["name"]], "public": ro.random() < 0.5})
            elif r < 0.86:
                src = ro.choice([None, an])
                cands = (env_fl if src is None else ag["fluents"])
                cands = [f for f in cands if not f["params"] or any(subtype_of(tmap, ot, f["params"][0][1][1]) for _, ot in objs)]
                if not cands:
                    continue
                fd = ro.choice(cands)
                fe = ["f", fd["name"]] + [["o", ro.choice([o for o, ot in objs if subtype_of(tmap, ot, pt[1])])]
                                          for _, pt in fd["params"]]
                vals = values_of(fd["type"], objs, tmap)
                if not vals:
                    continue
                v = ro.choice(vals)
                if faulty:
                    v = self.wrong_value(ro, fd["type"], objs, tmap)[0]
                ops.append({"op": "set_init", "fluent": fe, "agent": src, "value": v})
            else:
                bf = [f for f in env_fl if f["type"][0] == "bool" and not f["params"]]
                if bf:
                    ops.append({"op": "add_goal", "goal": ["f", ro.choice(bf)["name"]]})
        sched = []
        replicas = ["P0"]
        for i, op in enumerate(ops):
            if clone_at and i == clone_at[0]:
                clone_at.pop(0)
                src = rs.choice(replicas)
                nid = f"P{len(replicas)}"
                sched.append({"op": "clone", "of": src, "id": nid})
                replicas.append(nid)
            to = list(replicas)
            if len(replicas) > 1:
                if rs.random() < 0.12:
                    to = [rs.choice(replicas)]
                else:
                    rs.shuffle(to)
            sched.append(dict(op, to=to))
        return {"engine": self.name, "kind": "ma", "initial_defaults": ma_idf, "initial_defaults_faulty": None, "world": world,
                "ops": sched}

    # ------------------------------------------------------------------- execute
    def execute(self, script, ctx):
        if script.get("mode") == "perm":
            return self.execute_perm(script, ctx)
        W = World(script["world"])
        ctx.op_index = 0
        idf_bad = [d for d in script.get("initial_defaults") or [] if not desc_compatible(d[0], d[1], script["world"])]
        try:
            R0 = Replica(W, script["kind"], "P", script.get("initial_defaults"), as_nodes=script.get("idf_nodes", False))
        except BuildError:
            raise
        except Exception as ex:
            if idf_bad:
                ctx.probe("faulty-per-type-default-rejected")
                ctx.ev("constructor rejected", type(ex).__name__)
                return False
            raise
        if idf_bad:
            # the constructor stored it; the first fluent of that type would receive it
            ctx.fail("C23.rejects-incompatible",
                     f"Problem(initial_defaults=...) accepted an incompatible per-type default "
                     f"{json.dumps(idf_bad)}",
                     cls="accepted-per-type-default")
        reps = {"P0": R0}
        # C22: every replica has a CLONE-FREE TWIN: a problem built from scratch by the very operations that were
        # delivered to the replica (for a clone: to its source up to the clone, then to itself).  A replica must accept
        # exactly what its twin accepts -- whatever was done meanwhile to the problems it was cloned from or into.
        twins, delivered = {}, {}
        if self.prop == "C22":
            try:
                twins["P0"] = Replica(W, script["kind"], "P", script.get("initial_defaults"))
                delivered["P0"] = []
            except Exception:
                twins = {}
        in_sync = {}    # frozenset({a,b}) -> bool
        faulty_at = {}  # replica -> op index of the last value-faulty op
        judged_after = {}
        saw_reject_both = saw_one_sided = False
        judged_after_clone = 0
        for i, op in enumerate(script["ops"]):
            ctx.op_index = i
            ctx.ops += 1
            k = op["op"]
            if k == "clone":
                if op["of"] not in reps:
                    continue
                src = reps[op["of"]]
                before = snapshot(src.p)
                try:
                    cp = src.p.clone()
                except Exception as ex:
                    ctx.fail("C22.clone-succeeds", f"op {i}: clone() raised {type(ex).__name__}: {ex}", cls=type(ex).__name__)
                    continue
                reps[op["id"]] = Replica.wrap(W, src.kind, cp)
                if op["of"] in twins:
                    try:
                        T = Replica(W, script["kind"], "P", script.get("initial_defaults"))
                        for op_ in delivered[op["of"]]:
                            try:
                                apply_op(T, op_)
                            except BuildError:
                                pass
                        twins[op["id"]] = T
                        delivered[op["id"]] = list(delivered[op["of"]])
                    except Exception:
                        pass
                in_sync[frozenset((op["of"], op["id"]))] = True
                ctx.check("C22.clone-equal", self.equal(cp, src.p, ctx, i),
                          f"op {i}: clone of {op['of']} is not equal to it", cls="clone-not-equal")
                ctx.check("C22.clone-kind", self.same_kind(cp, src.p),
                          f"op {i}: clone of {op['of']} has a different kind", cls="clone-kind")
                ctx.check("C22.independent", snapshot(src.p) == before, f"op {i}: clone() changed the original",
                          cls="clone-changed-original")
                ctx.ev(i, "clone", op["of"], op["id"])
                ctx.outcome("clone", "ok")
                continue
            to = [t for t in op.get("to", ["P0"]) if t in reps]
            if not to:
                continue
            others = [r for r in reps if r not in to]
            snaps_before = {r: snapshot(reps[r].p) for r in reps}
            vfault = {t: value_fault(reps[t], op, script["world"]) for t in to}
            results = {}
            for t in list(to):
                try:
                    results[t] = apply_op(reps[t], op)
                except BuildError:
                    # the operation cannot be expressed on this replica (it refers to an action
                    # the replica does not have): not delivered there
                    to.remove(t)
            if not to:
                ctx.ev(i, "skipped-unbuildable")
                continue
            others = [r for r in reps if r not in to]
            for t in to:
                if t in twins:
                    delivered[t].append(op)
                    try:
                        tw = apply_op(twins[t], op)
                    except BuildError:
                        continue
                    ctx.check("C22.same-acceptance", tw[0] == results[t][0],
                              f"op {i} ({k} {json.dumps({x: y for x, y in op.items() if x != 'to'})[:300]}) on {t}: "
                              f"{results[t][0] if results[t][0] == 'ok' else results[t][1]}; a problem built from scratch by "
                              f"the same operations: {tw[0] if tw[0] == 'ok' else tw[1]}", cls="differs-from-clone-free-twin")
            outc = "/".join(results[t][0] if results[t][0] == "ok" else results[t][1] for t in to)
            ctx.ev(i, k, to, "->", outc)
            ctx.outcome(k, results[to[0]][0] if results[to[0]][0] == "ok" else results[to[0]][1])
            # ---- C22: independence of untouched replicas
            for r in others:
                ctx.check("C22.independent", snapshot(reps[r].p) == snaps_before[r],
                          f"op {i} ({k}) delivered to {to} changed replica {r}", cls="other-replica-changed")
            if others:
                saw_one_sided = True
                ctx.probe("one-sided-op")
                for t in to:
                    # (a refused operation may still have changed its target -- add_action appends the action before
                    # it registers the parameter types, which can raise: C22 does not promise atomic refusals)
                    if results[t][0] == "ok" or snapshot(reps[t].p) != snaps_before[t]:
                        if results[t][0] != "ok":
                            ctx.probe("refused-operation-changed-its-target")
                        for r in others:
                            in_sync[frozenset((t, r))] = False
            # ---- C22: same acceptance, still equal
            for a, b in itertools.combinations(to, 2):
                if not in_sync.get(frozenset((a, b)), False):
                    continue
                ra, rb = results[a], results[b]
                ctx.check("C22.same-acceptance", ra[0] == rb[0],
                          f"op {i} ({k} {json.dumps({x: y for x, y in op.items() if x != 'to'})[:300]}): "
                          f"{a} -> {ra[0] if ra[0] == 'ok' else ra[1]}, {b} -> {rb[0] if rb[0] == 'ok' else rb[1]}",
                          cls="acceptance-differs")
                ctx.check("C22.stay-equal", self.equal(reps[a].p, reps[b].p, ctx, i),
                          f"after op {i} ({k}) delivered to both, {a} != {b}", cls="not-equal")
                ctx.check("C22.same-kind", self.same_kind(reps[a].p, reps[b].p),
                          f"after op {i} ({k}) delivered to both, kinds of {a} and {b} differ", cls="kind-differs")
                judged_after_clone += 1
                if ra[0] == "exc":
                    saw_reject_both = True
                    ctx.probe("rejected-on-both")
            # ---- reach: which kinds of operation are actually accepted (a kind that is always refused, e.g. because
            # the harness built its argument in the wrong environment, exercises nothing)
            kk = k + ":" + op["metric"]["kind"] if k == "add_metric" else k
            ctx.probe(("accepted:" if all(results[t][0] == "ok" for t in to) else "refused:") + kk)
            # ---- C23: stored values, atomicity of value-faulty operations
            for t in to:
                res = results[t]
                if vfault.get(t):
                    ctx.faults_cfg["reject:value"] += 1
                    if res[0] == "exc":
                        ctx.faults_fired["reject:value"] += 1
                    ctx.check("C23.rejects-incompatible", res[0] == "exc",
                              f"op {i} ({k}) on {t} stores an incompatible value ({vfault[t]}): "
                              f"{json.dumps({x: y for x, y in op.items() if x != 'to'})[:300]} was accepted",
                              cls="accepted-" + k)
                    if res[0] == "exc":
                        ctx.check("C23.rejection-atomic", snapshot(reps[t].p) == snaps_before[t],
                                  f"op {i} ({k}) was rejected for an incompatible value but changed {t}",
                                  cls="rejected-but-changed-" + k)
                    faulty_at[t] = i
                    judged_after[t] = 0
                elif t in faulty_at:
                    judged_after[t] = judged_after.get(t, 0) + 1
                    if judged_after[t] == 3:
                        ctx.probe("three-judged-after-faulty-value")
                if res[0] == "ok" and k == "action_instance":
                    ai = res[1]
                    for prm, v in zip(ai.action.parameters, ai.actual_parameters):
                        rr = compatible(prm.type, v)
                        ctx.check("C23.stored-compatible", rr is None, f"op {i}: ActionInstance parameter: {rr}",
                                  cls="bad-action-instance")
                bad = stored_value_problems(reps[t].p)
                ctx.check("C23.stored-compatible", not bad, f"after op {i} ({k}) on {t}: " + "; ".join(bad[:3]),
                          cls="stored-incompatible-after-" + k)
            ctx.states.add(digest(snapshot(reps[to[0]].p)))
        if self.prop == "C22":
            return saw_reject_both and saw_one_sided and judged_after_clone >= 3
        return ctx.probes.get("three-judged-after-faulty-value", 0) > 0

    @staticmethod
    def equal(a, b, ctx, i):
        try:
            return a == b and b == a
        except Exception as ex:
            # == itself cannot be computed?  If a problem cannot even be compared with itself
            # (e.g. its kind computation asserts on an initial value given for an object the
            # problem does not have) the failure says nothing about cloning: not judged.
            def self_eq(x):
                try:
                    x == x
                    return True
                except Exception:
                    return False
            sa, sb = self_eq(a), self_eq(b)
            if not sa and not sb:
                ctx.probe("equality-uncomputable:" + type(ex).__name__)
                return True
            if sa != sb:
                # one replica can be compared with itself and the other cannot: they have diverged
                ctx.fail("C22.stay-equal", f"op {i}: one replica compares equal to itself, comparing the other with "
                         f"itself raises {type(ex).__name__}: {ex}", cls="self-comparison-differs")
                return False
            ctx.fail("C22.stay-equal", f"op {i}: comparing the replicas raised {type(ex).__name__}: {ex}",
                     cls=type(ex).__name__)
            return False

    @staticmethod
    def same_kind(a, b):
        try:
            return a.kind == b.kind
        except Exception:
            # the kind cannot be computed on either (e.g. simplifier refusing an expression):
            # not the subject of C22 as long as both behave alike
            try:
                b.kind
            except Exception:
                return True
            return False

    # ================================================================== C24 ===
    def generate_perm(self, seed, tier):
        rw, ro = stream(seed, "world"), stream(seed, "ops")
        world = self.gen_vocab(rw)
        # every object and fluent is available
        container = ro.choice(["instantaneous", "durative", "problem"])
        params = [["p0", ["user", "T"]]] if container != "problem" and ro.random() < 0.5 else []
        g = ExprGen(ro, world, [(n, t) for n, t in params], quant=False, ifuns=False, div=False, const_range=(0, 3))
        focus = ro.sample(world["fluents"], min(len(world["fluents"]), ro.choice([1, 2, 2, 3])))

        def insertion():
            if ro.random() < 0.15 and container != "problem":
                fd = ro.choice([f for f in focus if not f["params"]] or [None])
                if fd is not None:
                    vals = values_of(fd["type"], world["objects"], dict(world["types"]))
                    if vals:
                        return {"ins": "simeff", "simeff": {"fluents": [["f", fd["name"]]], "values": [ro.choice(vals)]}}
            prev = [x["effect"] for x in multiset if x["ins"] == "effect" and x["effect"]["value"][0] in ("int", "real")
                    and x["effect"].get("kind", "assign") == "assign"]
            if prev and ro.random() < 0.2:
                # the same assignment again, written with the other kind of numeric constant
                pe = ro.choice(prev)
                ed = dict(pe, cond=None if ro.random() < 0.8 else pe.get("cond"), xreal=not pe.get("xreal", False))
                return {"ins": "effect", "effect": ed}
            ed = self.gen_effect(ro, world, g, focus)
            if ed is None:
                return None
            if ro.random() < 0.6:
                ed["cond"] = None
            if ed["value"][0] in ("int", "real") and ro.random() < 0.15:
                ed["xreal"] = True
            ft = next(f["type"] for f in world["fluents"] if f["name"] == ed["fluent"][1])
            if ft[0] in ("int", "real") and ft[1] is None and ft[2] is None and not ed.get("forall") and ro.random() < 0.07:
                ed["deep"] = 1500
                ed.pop("xreal", None)
            return {"ins": "effect", "effect": ed}

        multiset = []
        for _ in range(ro.randint(2, 5)):
            x = insertion()
            # at most one simulated effect per collection: set_simulated_effect REPLACES the
            # previous one, so two of them are not "a collection added at the same time point"
            if x and not (x["ins"] == "simeff" and any(y["ins"] == "simeff" for y in multiset)):
                multiset.append(x)
        later = [x for x in (insertion() for _ in range(ro.randint(3, 8))) if x]
        timing = None
        if container == "durative":
            timing = ro.choice([["start", 0], ["end", 0], ["start", 1]])
        elif container == "problem":
            timing = ["gstart", ro.randint(1, 3)]
        # round 8 (scale): WIDE simulated effects.  A stream of its own, so that the runs that are not widened are
        # exactly what they were.  The simulated effect writes 2-16 fluents: its original target (one the other
        # effects aim at) among extra parameterless fluents that nothing else writes, at any position.
        rwide = stream(seed, "wide")
        if container != "problem" and rwide.random() < 0.3:
            nx = rwide.randint(1, 15)
            extra = [{"name": f"w{j}", "type": list(rwide.choice([["bool"], ["int", 0, 5], ["real", None, None]])), "params": []}
                     for j in range(nx)]
            world["fluents"] = world["fluents"] + extra
            tm = dict(world["types"])

            def widen(x):
                fl, vs = list(x["simeff"]["fluents"]), list(x["simeff"]["values"])
                for fd in extra:
                    at = rwide.randint(0, len(fl))
                    fl.insert(at, ["f", fd["name"]])
                    vs.insert(at, rwide.choice(values_of(fd["type"], world["objects"], tm)))
                x["simeff"] = {"fluents": fl, "values": vs}
            cands = [f for f in focus if not f["params"]]
            if cands and not any(x["ins"] == "simeff" for x in multiset):
                fd = rwide.choice(cands)
                vals = values_of(fd["type"], world["objects"], tm)
                if vals:
                    multiset.insert(rwide.randint(0, len(multiset)),
                                    {"ins": "simeff", "simeff": {"fluents": [["f", fd["name"]]], "values": [rwide.choice(vals)]}})
            for x in multiset + later:
                if x["ins"] == "simeff":
                    widen(x)
        return {"engine": self.name, "mode": "perm", "world": world, "container": container, "params": params,
                "timing": timing, "multiset": multiset, "perm_seed": ro.randint(0, 10**6), "n_perms": ro.randint(1, 5),
                "clone_after": ro.randrange(max(1, len(multiset))) if ro.random() < 0.3 else None,
                "fork": ro.random() < 0.3, "ops": later}

    def fresh_container(self, W, script, tag):
        c = script["container"]
        sig = OrderedDict((pn, W.type(pt)) for pn, pt in script.get("params", []))
        if c == "instantaneous":
            return InstantaneousAction("a" + tag, sig, W.env)
        if c == "durative":
            a = DurativeAction("a" + tag, sig, W.env)
            a.set_fixed_duration(3)
            return a
        p = Problem("p" + tag, W.env)
        for f in W.fluents.values():
            p.add_fluent(f)
        for o in W.objects.values():
            p.add_object(o)
        return p

    def insert(self, W, cont, ins, timing):
        """Returns 'ok', 'conflict' or another exception class name."""
        try:
            with warnings.catch_warnings():
                warnings.simplefilter("ignore")
                if ins["ins"] == "simeff":
                    scope = scope_of(cont) if not isinstance(cont, Problem) else None
                    se = make_simeff(W, ins["simeff"], scope)
                    if isinstance(cont, DurativeAction):
                        cont.set_simulated_effect(timing_of(timing), se)
                    else:
                        cont.set_simulated_effect(se)
                else:
                    scope = scope_of(cont) if not isinstance(cont, Problem) else None
                    _add_effect(W, cont, ins["effect"], scope, timing)
            return "ok"
        except UPConflictingEffectsException:
            return "conflict"
        except BuildError:
            raise
        except Exception as ex:
            return type(ex).__name__

    @staticmethod
    def stored(cont, timing):
        if isinstance(cont, InstantaneousAction):
            return [eff_str(e) for e in cont.effects], (None if cont.simulated_effect is None else
                                                        [str(f) for f in cont.simulated_effect.fluents])
        if isinstance(cont, DurativeAction):
            t = timing_of(timing)
            se = cont.simulated_effects.get(t)
            return [eff_str(e) for e in cont.effects.get(t, [])], (None if se is None else [str(f) for f in se.fluents])
        return [eff_str(e) for e in cont.timed_effects.get(timing_of(timing), [])], None

    def execute_perm(self, script, ctx):
        W = World(script["world"])
        ms = script["multiset"]
        timing = script.get("timing")
        verdicts = []
        first = None
        first_accepted = None
        # the orders are derived from the multiset itself (robust under shrinking): all of them
        # when <= 4 insertions, else the identity plus seeded shuffles
        n = len(ms)
        if n <= 4:
            perms = [list(p) for p in itertools.permutations(range(n))]
        else:
            import random as _random
            rp = _random.Random(script.get("perm_seed", 0))
            perms = [list(range(n))]
            for _ in range(script.get("n_perms", 4)):
                q = list(range(n))
                rp.shuffle(q)
                perms.append(q)
        try:
            for pi, perm in enumerate(perms):
                cont = self.fresh_container(W, script, f"_{pi}")
                outs = []
                for pos, j in enumerate(perm):
                    outs.append(self.insert(W, cont, ms[j], timing))
                    if script.get("clone_after") == pos:
                        # the container is replaced by its clone at the same point of every order: "every action"
                        # includes one obtained by clone(), whose bookkeeping must judge like the original's
                        cont = cont.clone()
                        ctx.probe("cloned-between-insertions")
                ctx.ops += len(outs)
                # (a rejection that dies with RecursionError while rendering its message is still a rejection)
                verdict = any(o in ("conflict", "RecursionError") for o in outs)
                verdicts.append((perm, verdict, outs))
                ctx.ev("perm", perm, outs)
                if first is None:
                    first = cont
                    first_accepted = [ms[j] for j, o in zip(perm, outs) if o == "ok"]
        except BuildError:
            ctx.ev("skipped-unbuildable")
            return False
        ctx.op_index = 0
        if verdicts:
            base = verdicts[0]
            for perm, verdict, outs in verdicts[1:]:
                ctx.check("C24.order-independent", verdict == base[1],
                          f"insertion order {base[0]} gives {base[2]}, order {perm} gives {outs} for the multiset "
                          f"{json.dumps(ms)[:400]}", cls="order-dependent")
            if base[1]:
                ctx.probe("conflict-in-multiset")
            ctx.outcome("perm", str(sorted(set(o for _, _, outs in verdicts for o in outs))))
        if first is None:
            return False
        # ---- exception safety: shadow container fed only the accepted insertions
        shadow = self.fresh_container(W, script, "_shadow")
        for ins in first_accepted:
            o = self.insert(W, shadow, ins, timing)
            if o != "ok":
                ctx.fail("C24.shadow-accepts", f"shadow container rejected an insertion the real one accepted: "
                         f"{json.dumps(ins)[:300]} -> {o}", cls="shadow-" + o)
        if script.get("clone_after") is not None:
            shadow = shadow.clone()
        rejected_before = any(o != "ok" for o in verdicts[0][2]) if verdicts else False
        judged_after_reject = 0
        second = shadow2 = None
        if script.get("fork"):
            # the container is CLONED and both go on receiving insertions alternately: what is inserted into one must
            # not decide what the other accepts (each is compared with a container of its own, built from scratch)
            try:
                second = first.clone()
                shadow2 = self.fresh_container(W, script, "_shadow2")
                for ins in first_accepted:
                    self.insert(W, shadow2, ins, timing)
                ctx.probe("forked-into-original-and-clone")
            except BuildError:
                second = shadow2 = None
        for i, ins in enumerate(script["ops"]):
            ctx.op_index = i + 1
            ctx.ops += 1
            if second is not None and i % 2 == 1:
                try:
                    ob1 = self.insert(W, second, ins, timing)
                    ob2 = self.insert(W, shadow2, ins, timing)
                except BuildError:
                    continue
                ctx.ev(i, ins["ins"], "clone", ob1, ob2)
                ctx.check("C24.order-independent", ob1 == ob2,
                          f"insertion {i} {json.dumps(ins)[:300]} into the CLONE of the container -> {ob1}; into a container "
                          f"built from scratch with the same accepted insertions -> {ob2} (the original received other "
                          f"insertions in between)", cls="clone-interferes")
                continue
            try:
                o1 = self.insert(W, first, ins, timing)
                o2 = self.insert(W, shadow, ins, timing)
            except BuildError:
                ctx.ev(i, "skipped-unbuildable")
                continue
            ctx.ev(i, ins["ins"], o1, o2)
            ctx.outcome(ins["ins"], o1)
            ctx.check("C24.rejected-insertion-leaves-no-trace", o1 == o2,
                      f"insertion {i} {json.dumps(ins)[:300]}: container with rejected insertions in its history -> {o1}, "
                      f"container that only ever saw the accepted ones -> {o2}", cls=f"{o1}-vs-{o2}")
            ctx.check("C24.stored-effects-equal", self.stored(first, timing) == self.stored(shadow, timing),
                      f"after insertion {i}: stored effects differ between the real and the shadow container: "
                      f"{self.stored(first, timing)} vs {self.stored(shadow, timing)}", cls="stored-differs")
            if rejected_before:
                judged_after_reject += 1
            if o1 != "ok":
                rejected_before = True
                ctx.probe("rejected-insertion")
        return rejected_before and judged_after_reject >= 2
