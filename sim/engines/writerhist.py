"""C38 (PDDL writer part) -- one PDDLWriter instance under a call history with stream
faults (engine `writerhist`).

Real code: PDDLWriter (lazy renaming tables filled by whichever output is requested first),
ConverterToPDDLString, Problem/actions/plans.
Stubs: the file object behind write_domain / write_problem / write_plan (the module-level
name `open` of pddl_writer is shadowed by a fake whose file fails at write k).
The ANML writer keeps no state between calls and has no look-up API: not covered here.
"""
import json as _json
import re
import warnings
from collections import OrderedDict
from fractions import Fraction

from ..core import Engine, stream, BuildError, digest

import unified_planning as up
from unified_planning.environment import Environment
from unified_planning.model import (Problem, Fluent, Object, InstantaneousAction, DurativeAction, StartTiming,
                                     EndTiming, ClosedTimeInterval)
from unified_planning.io import pddl_writer as pw
from unified_planning.io.pddl_writer import PDDLWriter
from unified_planning.plans import SequentialPlan, TimeTriggeredPlan, ActionInstance
from unified_planning.exceptions import UPException

# the harness's own copy of the keyword lists, taken before anything could have mutated them
GENERAL = frozenset(pw.GENERAL_PDDL_KEYWORDS)
TEMPORAL = frozenset(pw.TEMPORAL_PDDL_KEYWORDS)
PDDL3 = frozenset(pw.PDDL3_KEYWORDS)

NAME_RE = re.compile(r"^[a-zA-Z][a-zA-Z0-9_-]*$")
PARAM_RE = re.compile(r"^\?[a-zA-Z][a-zA-Z0-9_-]*$")

POOL = ["at", "At", "AT", "at_", "at_0", "start", "Start", "end", "object", "Object", "and", "or", "not", "2fast", "a-b",
        "a b", "x.y", "define", "domain", "when", "forall", "exists", "increase", "duration", "over", "all", "_priv",
        "total-cost", "loc", "Loc", "LOC", "loc_0", "loc_1", "f_2fast", "o_2fast", "a_2fast", "x", "X", "x_0", "move",
        "Move", "always", "sometime", "number", "é", "p q", "9", "a.b", "a_b", "A_B", "?v", "robot", "Robot"]


class json:  # noqa: N801 -- key-sorted renderings only
    @staticmethod
    def dumps(o, **kw):
        kw.setdefault("sort_keys", True)
        return _json.dumps(o, **kw)


class FakeFile:
    def __init__(self, fail_at, errno_):
        self.fail_at = fail_at
        self.errno_ = errno_
        self.writes = 0
        self.data = []
        self.failed = False

    def write(self, s):
        self.writes += 1
        if self.fail_at is not None and self.writes == self.fail_at:
            self.failed = True
            raise OSError(self.errno_, "injected by the simulator")
        self.data.append(s)
        return len(s)

    def __enter__(self):
        return self

    def __exit__(self, *a):
        return False


class WriterHist(Engine):
    name = "writerhist"
    props = ("C38",)
    nruns = {"quick": 5000, "thorough": 300000}
    budgets = {"quick": 40.0, "thorough": 540.0}
    rule = (
        "script = problem whose identifiers are adversarial (quantified conditions whose bound variables are named like objects or "
        "parameters of their own type; case variants of one another, PDDL keywords of the general / "
        "temporal / PDDL3 sets, names with symbols, blanks and leading digits, names equal to the mangled form of another "
        "name; in 30% of the scripts free-form names of 3-40 characters most of which are not valid in PDDL, line breaks included; optionally the same name in two categories) + 6-20 calls on ONE PDDLWriter in seeded order (get_domain, "
        "get_problem, get_plan, write_domain / write_problem / write_plan to a file that may fail with ENOSPC/EIO at write k "
        "and is then retried, get_pddl_name, get_item_named). After every call: every item that has a name maps back to "
        "itself, every name ever handed out still maps to the same item and back to the same name, names are valid PDDL "
        "identifiers, are not keywords of the sets that apply, and differ between distinct items; at the end every type, "
        "fluent, action and object the outputs must mention has a name that occurs as a token of the text. non-trivial = "
        ">= 2 colliding identifiers AND (fault profile) a failed write followed by a successful output; distinct = digest "
        "of the (call kind, outcome class) sequence"
    )
    real_components = ("PDDLWriter (renaming tables, get_domain/get_problem/get_plan/write_*, look-ups)",
                       "ConverterToPDDLString", "Problem, actions, plans")
    stub_components = ("the file object behind write_* (module-level `open` of pddl_writer shadowed by a fake)",)
    assumptions = (
        "PDDL writer only: the ANML writer keeps no state between calls and has no look-up API",
        "the module-level GENERAL_PDDL_KEYWORDS set (mutated in place by PDDLWriter.__init__) is restored before every run",
        "item identity is judged with == (parameters of different actions with equal name and type are equal)",
    )

    def profiles(self, tier):
        return ["plain", "faults", "faults", "dupnames"]

    # ----------------------------------------------------------------- generate
    def generate(self, seed, profile, tier):
        rw, ro = stream(seed, "world"), stream(seed, "ops")
        names = list(POOL)
        rw.shuffle(names)
        # bias toward collisions: pick a few stems and take their variants
        stems = rw.sample(["at", "loc", "x", "move", "object", "start", "2fast", "a_b", "robot"], 3)
        variants = {"at": ["at", "At", "AT", "at_", "at_0"], "loc": ["loc", "Loc", "LOC", "loc_0", "loc_1"],
                    "x": ["x", "X", "x_0"], "move": ["move", "Move"], "object": ["object", "Object"],
                    "start": ["start", "Start"], "2fast": ["2fast", "f_2fast", "o_2fast", "a_2fast"],
                    "a_b": ["a_b", "A_B", "a-b", "a.b", "a b"], "robot": ["robot", "Robot"]}
        cand = [v for s in stems for v in variants[s]]
        rw.shuffle(cand)
        cand += [n for n in names if n not in cand]
        dup = profile == "dupnames"
        used = []

        def take():
            if dup and used and rw.random() < 0.3:
                return rw.choice(used)
            for n in cand:
                if n not in used:
                    used.append(n)
                    return n
            return f"n{len(used)}"

        def take_in(taken):
            # names must be unique inside one category
            for _ in range(20):
                n = take()
                if n not in taken:
                    taken.add(n)
                    return n
            n = f"z{len(taken)}"
            taken.add(n)
            return n

        tt, ot, ft, at = set(), set(), set(), set()
        types = [take_in(tt) for _ in range(rw.randint(1, 2))]
        objects = [[take_in(ot), rw.choice(types)] for _ in range(rw.randint(2, 4))]
        fluents = []
        for _ in range(rw.randint(2, 4)):
            fluents.append({"name": take_in(ft), "type": rw.choice(["bool", "bool", "int"]),
                            "params": [[rw.choice(["x", "X", "at", "l", "2", "p q"]), rw.choice(types)]
                                       for _ in range(rw.choice([0, 1, 1]))]})
        temporal = rw.random() < 0.35
        actions = []
        for i in range(rw.randint(1, 3)):
            pn = set()
            params = []
            for _ in range(rw.choice([0, 1, 2])):
                n = rw.choice(["x", "X", "at", "start", "l", "L", "2", "a b", "obj", "object"])
                if n in pn:
                    continue
                pn.add(n)
                params.append([n, rw.choice(types)])
            bf = [f for f in fluents if f["type"] == "bool"]
            eff = rw.choice(bf)["name"] if bf else None
            ad = {"name": take_in(at), "params": params, "durative": temporal and rw.random() < 0.6, "eff": eff}
            unary = [f for f in fluents if f["type"] == "bool" and len(f["params"]) == 1]
            if unary and rw.random() < 0.45:
                # a quantified condition; the bound variable may be named like an object or a parameter of its own type
                f = rw.choice(unary)
                vt = f["params"][0][1]
                same = [o for o, t in objects if t == vt] + [pn_ for pn_, pt_ in params if pt_ == vt]
                vn = rw.choice(same) if same and rw.random() < 0.6 else rw.choice(["v", "x", "X", "at", "2", "a b", "obj"])
                ad["quant"] = {"kind": rw.choice(["exists", "forall"]), "var": vn, "type": vt, "fluent": f["name"]}
            actions.append(ad)
        # round 8 (scale): LONG free-form names, 3-40 characters most of which are not valid in PDDL (a stream of its
        # own: the other runs are what they were).  Only objects and actions are renamed: nothing refers to them by name.
        rlong = stream(seed, "long")
        if rlong.random() < 0.3:
            def long_name(taken):
                for _ in range(20):
                    n = rlong.choice(["a", "Z", "9", "?", " "]) + "".join(
                        rlong.choice("ab_-9 .:!?é()/\n\t") for _ in range(rlong.randint(2, 39)))
                    if n not in taken:
                        taken.add(n)
                        return n
                return None
            for _ in range(rlong.randint(1, 3)):
                if rlong.random() < 0.5:
                    n = long_name(ot)
                    if n is not None:
                        rlong.choice(objects)[0] = n
                else:
                    n = long_name(at)
                    if n is not None:
                        rlong.choice(actions)["name"] = n
        world = {"types": types, "objects": objects, "fluents": fluents, "actions": actions, "dup": dup,
                 "traj": rw.random() < 0.2}
        ops = []
        outs = ["get_domain", "get_problem", "get_plan", "write_domain", "write_problem", "write_plan"]
        nops = ro.randint(6, 20) * (stream(seed, "size").choice([1, 1, 1, 2, 3]) if tier == "thorough" else 1)
        for i in range(nops):
            r = ro.random()
            if r < 0.55:
                k = ro.choice(outs)
                op = {"op": k}
                if k.startswith("write") and profile == "faults" and ro.random() < 0.6:
                    op["fault"] = {"kind": ro.choice(["enospc", "eio"]), "write": ro.randint(1, 25)}
                    ops.append(op)
                    ops.append({"op": k})  # retry
                    continue
                ops.append(op)
            elif r < 0.8:
                ops.append({"op": "name_of", "cat": ro.choice(["type", "object", "fluent", "action", "param"]),
                            "i": ro.randint(0, 5), "j": ro.randint(0, 2)})
            else:
                ops.append({"op": "item_named", "name": ro.choice(cand[:12] + ["at_", "loc_0", "x_0", "?x", "?x_0", "nope"]).lower()})
        script = {"engine": self.name, "world": world, "ops": ops}
        if rw.random() < 0.3:
            # another writer used EARLIER in the same process, on a problem of a poorer dialect that shares the names
            # (no durative action, no trajectory constraint): what one writer did must not leak into the next
            w0 = _json.loads(_json.dumps(world))
            for a in w0["actions"]:
                a["durative"] = False
            w0["traj"] = False
            script["prelude"] = {"world": w0, "calls": rw.sample(["get_domain", "get_problem", "get_plan"], rw.randint(1, 3))}
        return script

    # ------------------------------------------------------------------ execute
    def build(self, world):
        env = Environment()
        env.error_used_name = not world.get("dup")
        tm = env.type_manager
        types = OrderedDict((n, tm.UserType(n)) for n in world["types"])
        p = Problem("prob", env)
        objs = OrderedDict()
        for n, t in world["objects"]:
            if t not in types:
                raise BuildError(t)
            o = Object(n, types[t], env)
            p.add_object(o)
            objs[n] = o
        fls = OrderedDict()
        for fd in world["fluents"]:
            sig = OrderedDict()
            for pn, pt in fd["params"]:
                if pt not in types:
                    raise BuildError(pt)
                sig[pn] = types[pt]
            f = Fluent(fd["name"], tm.BoolType() if fd["type"] == "bool" else tm.IntType(0, 9), sig, env)
            p.add_fluent(f, default_initial_value=False if fd["type"] == "bool" else 0)
            fls[fd["name"]] = f
        acts = OrderedDict()
        variables = []
        for ad in world["actions"]:
            sig = OrderedDict()
            for pn, pt in ad["params"]:
                if pt not in types:
                    raise BuildError(pt)
                sig[pn] = types[pt]
            if ad.get("durative"):
                a = DurativeAction(ad["name"], sig, env)
                a.set_fixed_duration(2)
            else:
                a = InstantaneousAction(ad["name"], sig, env)
            if ad.get("eff") in fls:
                f = fls[ad["eff"]]
                args = []
                ok = True
                for q in f.signature:
                    cand = [pp for pp in a.parameters if pp.type == q.type]
                    cand_o = [o for o in objs.values() if o.type == q.type]
                    if cand:
                        args.append(cand[0])
                    elif cand_o:
                        args.append(cand_o[0])
                    else:
                        ok = False
                if ok:
                    if ad.get("durative"):
                        a.add_effect(EndTiming(), f(*args), True)
                    else:
                        a.add_effect(f(*args), True)
            q = ad.get("quant")
            if q and q["fluent"] in fls and q["type"] in types:
                v = up.model.Variable(q["var"], types[q["type"]], env)
                em = env.expression_manager
                body = fls[q["fluent"]](v)
                cond = em.Exists(body, v) if q["kind"] == "exists" else em.Forall(body, v)
                if ad.get("durative"):
                    a.add_condition(StartTiming(), cond)
                else:
                    a.add_precondition(cond)
                variables.append(v)
            p.add_action(a)
            acts[ad["name"]] = a
        bf = [f for f in fls.values() if f.type.is_bool_type() and f.arity == 0]
        if bf:
            p.add_goal(bf[0])
            if world.get("traj"):
                p.add_trajectory_constraint(env.expression_manager.Sometime(bf[0]))
        return env, p, types, objs, fls, acts, variables

    def make_plan(self, p, acts, objs):
        items = []
        temporal = any(isinstance(a, DurativeAction) for a in acts.values())
        for a in acts.values():
            ps = []
            ok = True
            for q in a.parameters:
                c = [o for o in objs.values() if o.type == q.type]
                if not c:
                    ok = False
                    break
                ps.append(c[0])
            if ok:
                items.append(ActionInstance(a, ps))
        if temporal:
            return TimeTriggeredPlan([(Fraction(i), ai, Fraction(2) if isinstance(ai.action, DurativeAction) else None)
                                      for i, ai in enumerate(items)])
        return SequentialPlan(items)

    def execute(self, script, ctx):
        world = script["world"]
        # pin the process-global keyword set the writer mutates in place
        pw.GENERAL_PDDL_KEYWORDS.clear()
        pw.GENERAL_PDDL_KEYWORDS.update(GENERAL)
        saved_open = pw.__dict__.get("open")
        try:
            with warnings.catch_warnings():
                warnings.simplefilter("ignore")
                return self._run(script, world, ctx)
        finally:
            if saved_open is None:
                pw.__dict__.pop("open", None)
            else:
                pw.open = saved_open
            pw.GENERAL_PDDL_KEYWORDS.clear()
            pw.GENERAL_PDDL_KEYWORDS.update(GENERAL)

    def _run(self, script, world, ctx):
        pre = script.get("prelude")
        if pre:
            try:
                env0, p0, _, objs0, _, acts0, _ = self.build(pre["world"])
                w0 = PDDLWriter(p0)
                for c in pre.get("calls", []):
                    if c == "get_domain":
                        w0.get_domain()
                    elif c == "get_problem":
                        w0.get_problem()
                    elif c == "get_plan":
                        w0.get_plan(self.make_plan(p0, acts0, objs0))
                ctx.probe("earlier-writer-in-the-same-process")
            except BuildError:
                raise
            except Exception as ex:
                ctx.ev("prelude", type(ex).__name__)
        try:
            env, p, types, objs, fls, acts, variables = self.build(world)
        except BuildError:
            raise
        except Exception as ex:
            ctx.probe("discarded-unbuildable-world:" + type(ex).__name__ + ":" + str(ex)[:70])
            return False
        try:
            w = PDDLWriter(p)
        except Exception as ex:
            ctx.op_index = 0
            ctx.fail("C38.constructs", f"PDDLWriter(problem) raised {type(ex).__name__}: {ex}", cls=type(ex).__name__)
        plan = self.make_plan(p, acts, objs)
        keywords = set(GENERAL)
        if any(isinstance(a, DurativeAction) for a in acts.values()):
            keywords |= TEMPORAL
        if p.trajectory_constraints:
            keywords |= PDDL3
        items = {"type": list(types.values()), "object": list(objs.values()), "fluent": list(fls.values()),
                 "action": list(acts.values())}
        params = [(a, q) for a in acts.values() for q in a.parameters]
        allnames = [n for n in world["types"]] + [o for o, _ in world["objects"]] + [f["name"] for f in world["fluents"]] + \
                   [a["name"] for a in world["actions"]]
        lowered = [n.lower() for n in allnames]
        colliding = len(lowered) - len(set(lowered)) + sum(1 for n in allnames if n.lower() in keywords or not NAME_RE.match(n))
        handed = {}   # name -> description of the item it was first seen for
        texts = {}
        failed_write = recovered = False

        def describe(it):
            return f"{type(it).__name__}:{getattr(it, 'name', it)}"

        def audit(tag):
            seen = {}
            for cat, lst in list(items.items()) + [("param", [q for _, q in params]), ("param", variables)]:
                for it in lst:
                    try:
                        n = w.get_pddl_name(it)
                    except UPException:
                        continue
                    except Exception as ex:
                        ctx.fail("C38.lookups", f"{tag}: get_pddl_name({describe(it)}) raised {type(ex).__name__}", cls=type(ex).__name__)
                    rex = PARAM_RE if cat == "param" else NAME_RE
                    ctx.check("C38.valid-identifier", bool(rex.match(n)),
                              f"{tag}: {describe(it)} is written as {n!r}, not a valid PDDL identifier", cls="invalid-name")
                    ctx.check("C38.not-a-keyword", n.lstrip("?").lower() not in keywords or cat == "param",
                              f"{tag}: {describe(it)} is written as the keyword {n!r}", cls="keyword")
                    try:
                        back = w.get_item_named(n)
                    except Exception as ex:
                        ctx.fail("C38.inverse", f"{tag}: get_item_named({n!r}) raised {type(ex).__name__} although the name "
                                 f"was handed out for {describe(it)}", cls="name-unknown")
                    ctx.check("C38.inverse", back == it and type(back) is type(it),
                              f"{tag}: get_item_named(get_pddl_name({describe(it)})) = {describe(back)}", cls="not-inverse")
                    # PDDL is case-insensitive: names must differ as PDDL reads them
                    ln = n.lower()
                    if ln in seen and not (seen[ln] == it and type(seen[ln]) is type(it)):
                        ctx.fail("C38.injective", f"{tag}: {describe(seen[ln])} and {describe(it)} are both written as "
                                 f"{n!r} (up to case)", cls="name-clash")
                    seen[ln] = it
                    d = describe(it)
                    if n in handed:
                        ctx.check("C38.stable", handed[n] == d,
                                  f"{tag}: the name {n!r} was handed out for {handed[n]} and now belongs to {d}", cls="renamed")
                    else:
                        handed[n] = d
            # an equal but distinct item (a second Object / Fluent with the same name, type and signature) is the
            # same element: it must be written under the same name
            for it in list(items["object"]) + list(items["fluent"]):
                twin = Object(it.name, it.type, env) if isinstance(it, Object) else \
                    Fluent(it.name, it.type, list(it.signature), env)
                try:
                    n1 = w.get_pddl_name(it)
                except UPException:
                    continue
                try:
                    n2 = w.get_pddl_name(twin)
                except Exception as ex:
                    ctx.fail("C38.lookups", f"{tag}: get_pddl_name of an equal copy of {describe(it)} raised "
                             f"{type(ex).__name__}", cls="twin-" + type(ex).__name__)
                ctx.check("C38.stable", n1 == n2, f"{tag}: {describe(it)} is written {n1!r}, an equal copy of it {n2!r}",
                          cls="twin-renamed")
            for n, d in handed.items():
                try:
                    it = w.get_item_named(n)
                    n2 = w.get_pddl_name(it)
                except Exception as ex:
                    ctx.fail("C38.stable", f"{tag}: the name {n!r} handed out earlier for {d} is no longer known "
                             f"({type(ex).__name__})", cls="name-lost")
                ctx.check("C38.inverse", n2 == n, f"{tag}: get_pddl_name(get_item_named({n!r})) = {n2!r}", cls="not-inverse")
                ctx.check("C38.stable", describe(it) == d, f"{tag}: the name {n!r} now denotes {describe(it)}, was {d}",
                          cls="renamed")

        for i, op in enumerate(script["ops"]):
            ctx.op_index = i
            ctx.ops += 1
            k = op["op"]
            res = "ok"
            if k in ("get_domain", "get_problem", "get_plan"):
                try:
                    t = w.get_domain() if k == "get_domain" else w.get_problem() if k == "get_problem" else w.get_plan(plan)
                    texts[k.split("_")[1]] = t
                    if failed_write:
                        recovered = True
                except Exception as ex:
                    res = type(ex).__name__
                    ctx.fail("C38.outputs", f"op {i}: {k} raised {type(ex).__name__}: {str(ex)[:200]}", cls=res)
            elif k in ("write_domain", "write_problem", "write_plan"):
                fault = op.get("fault")
                ff = FakeFile(fault["write"] if fault else None, 28 if fault and fault["kind"] == "enospc" else 5)
                pw.open = lambda *a, **kw: ff
                if fault:
                    ctx.faults_cfg[fault["kind"]] += 1
                try:
                    if k == "write_domain":
                        w.write_domain("ignored")
                    elif k == "write_problem":
                        w.write_problem("ignored")
                    else:
                        w.write_plan(plan, "ignored")
                    texts[k.split("_")[1]] = "".join(ff.data)
                    if failed_write:
                        recovered = True
                except OSError:
                    res = "oserror"
                    if ff.failed:
                        ctx.faults_fired[fault["kind"]] += 1
                        failed_write = True
                        ctx.probe("write-failed")
                    else:
                        ctx.fail("C38.outputs", f"op {i}: {k} raised OSError without an injected fault", cls="OSError")
                except Exception as ex:
                    res = type(ex).__name__
                    ctx.fail("C38.outputs", f"op {i}: {k} raised {type(ex).__name__}: {str(ex)[:200]}", cls=res)
            elif k == "name_of":
                if op["cat"] == "param":
                    lst = [q for _, q in params]
                else:
                    lst = items[op["cat"]]
                if lst:
                    it = lst[op["i"] % len(lst)]
                    try:
                        n = w.get_pddl_name(it)
                        res = "named"
                    except UPException:
                        res = "unnamed"
                    except Exception as ex:
                        ctx.fail("C38.lookups", f"op {i}: get_pddl_name raised {type(ex).__name__}", cls=type(ex).__name__)
            elif k == "item_named":
                try:
                    w.get_item_named(op["name"])
                    res = "found"
                except UPException:
                    res = "unknown"
                except Exception as ex:
                    ctx.fail("C38.lookups", f"op {i}: get_item_named raised {type(ex).__name__}", cls=type(ex).__name__)
            else:
                raise BuildError(k)
            ctx.ev(i, k, res)
            ctx.outcome(k, res)
            audit(f"after op {i} ({k})")
        # ---- at the end: every element the outputs must mention has a name that occurs in them
        ctx.op_index = len(script["ops"])
        tok = lambda s: set(re.split(r"[\s()]+", s))
        if "domain" in texts:
            dt = tok(texts["domain"])
            used_types = {o.type for o in items["object"]} | {q.type for f in items["fluent"] for q in f.signature} | \
                         {q.type for a in items["action"] for q in a.parameters}
            for cat in ("type", "fluent", "action"):
                for it in items[cat]:
                    if cat == "type" and (it not in used_types or it.name.lower() == "object"):
                        continue  # a type nothing refers to need not be mentioned; a user type called
                        # `object` coincides with PDDL's built-in root type, which is never declared
                    try:
                        n = w.get_pddl_name(it)
                    except UPException:
                        ctx.fail("C38.covers", f"the domain was written but {describe(it)} has no PDDL name", cls="unnamed-" + cat)
                    if cat == "type" and n == "object":
                        continue  # PDDL's built-in root type is not declared
                    ctx.check("C38.covers", n in dt, f"the name {n!r} of {describe(it)} does not occur in the domain text",
                              cls="absent-" + cat)
        if "problem" in texts and "domain" in texts:
            both = tok(texts["problem"]) | tok(texts["domain"])
            for it in items["object"]:
                try:
                    n = w.get_pddl_name(it)
                except UPException:
                    ctx.fail("C38.covers", f"domain and problem were written but {describe(it)} has no PDDL name", cls="unnamed-object")
                ctx.check("C38.covers", n in both, f"the name {n!r} of {describe(it)} occurs in neither text", cls="absent-object")
        ctx.states.add(digest(sorted(handed.items())))
        if script.get("profile") == "faults":
            return colliding >= 2 and failed_write and recovered
        return colliding >= 2
