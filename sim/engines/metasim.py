"""C31 -- meta-engines over a stub planner on a virtual clock (engine `metasim`).

Real code: InterpretedFunctionsPlanner, OversubscriptionPlanner, MetaEngine, Factory (engine
registration and look-up by name), InterpretedFunctionsRemover, SequentialPlanValidator,
UPSequentialSimulator, Problem.clone.
Stubs: StubPlanner (exhaustive breadth-first search over the finite reachable state space of
the problem it is handed, by the reference interpreter; complete, shortest plans; charges
virtual time; honours the timeout argument exactly in virtual time; fails on script),
SimClock (module attribute `time` of the two meta-engine modules), interpreted-function tables.
"""
import json as _json
import warnings
from collections import deque
from fractions import Fraction

from ..core import Engine as SimEngine, stream, BuildError, digest, SimFault
from ..build import World
from ..gen import ExprGen
from ..refsem import RefSem, Ambiguous, state_key
from ..todesc import problem_desc, Unsupported

import unified_planning as up
from unified_planning.engines.engine import Engine
from unified_planning.engines.mixins import OneshotPlannerMixin
from unified_planning.engines.results import PlanGenerationResult, PlanGenerationResultStatus as ST
from unified_planning.engines import interpreted_functions_planner as ifp_mod
from unified_planning.engines import oversubscription_planner as osp_mod
from unified_planning.model import ProblemKind, Oversubscription
from unified_planning.plans import SequentialPlan, ActionInstance

POSITIVE = (ST.SOLVED_SATISFICING, ST.SOLVED_OPTIMALLY)


class json:  # noqa: N801 -- key-sorted renderings only
    @staticmethod
    def dumps(o, **kw):
        kw.setdefault("sort_keys", True)
        return _json.dumps(o, **kw)


class SimClock:
    """What the meta-engine modules see as `time`."""

    def __init__(self):
        self.now = 1000.0

    def time(self):
        return self.now


def search(world, cap=3000):
    """Breadth-first search of the reachable state space of a world descriptor.
    Returns dict(plan=shortest plan to a goal state or None, states=[...], expanded=n,
    incomplete=bool) -- incomplete when a transition was ambiguous or the cap was hit."""
    rs = RefSem(world)
    s0 = rs.initial_state()
    insts = [(a["name"], p) for a in world["actions"] for p in rs.ground_instances(a["name"])]
    seen = {state_key(s0): (s0, None)}
    order = [s0]
    q = deque([s0])
    incomplete = False
    goal_state = None

    def is_goal(st):
        try:
            return rs.is_goal(st)
        except Ambiguous:
            return None

    g0 = is_goal(s0)
    if g0 is None:
        incomplete = True
    elif g0:
        goal_state = s0
    expanded = 0
    while q:
        st = q.popleft()
        expanded += 1
        for an, ps in insts:
            try:
                ok, new, _ = rs.successor(st, an, ps)
            except Ambiguous:
                incomplete = True
                continue
            if not ok:
                continue
            k = state_key(new)
            if k in seen:
                continue
            seen[k] = (new, (state_key(st), an, ps))
            order.append(new)
            if goal_state is None:
                g = is_goal(new)
                if g is None:
                    incomplete = True
                elif g:
                    goal_state = new
            if len(seen) >= cap:
                incomplete = True
                q.clear()
                break
            q.append(new)
    plan = None
    if goal_state is not None:
        plan = []
        k = state_key(goal_state)
        while seen[k][1] is not None:
            pk, an, ps = seen[k][1]
            plan.append((an, ps))
            k = pk
        plan.reverse()
    return {"plan": plan, "states": order, "expanded": expanded, "incomplete": incomplete, "rs": rs}


class Scenario:
    def __init__(self, clock, behaviours, jumps, latency, rate):
        self.clock = clock
        self.behaviours = behaviours
        self.jumps = jumps
        self.latency = latency
        self.rate = rate
        self.calls = []


class StubPlanner(Engine, OneshotPlannerMixin):
    """The underlying planner handed to the meta-engines: exact, complete on finite problems,
    truthful, and failing exactly where the script says."""

    scenario = None

    def __init__(self, **kwargs):
        Engine.__init__(self)
        OneshotPlannerMixin.__init__(self)

    @property
    def name(self):
        return "simstub"

    @staticmethod
    def supported_kind():
        return ProblemKind()

    @staticmethod
    def supports(problem_kind):
        return True

    @staticmethod
    def satisfies(optimality_guarantee):
        return True

    def _solve(self, problem, heuristic=None, timeout=None, output_stream=None):
        sc = StubPlanner.scenario
        k = len(sc.calls)
        if str(k) in sc.jumps:
            sc.clock.now += sc.jumps[str(k)]
        beh = sc.behaviours[k] if k < len(sc.behaviours) else "ok"
        call = {"k": k, "timeout": timeout, "t0": sc.clock.now, "behaviour": beh, "goals": len(problem.goals)}
        sc.calls.append(call)
        if len(sc.calls) > 400:
            raise RuntimeError("stub: runaway meta-engine (more than 400 peer calls)")
        if beh == "raise":
            sc.clock.now += sc.latency
            raise SimFault("injected failure of the underlying planner")
        if beh in ("MEMOUT", "INTERNAL_ERROR", "UNSOLVABLE_INCOMPLETELY"):
            sc.clock.now += sc.latency
            call["result"] = beh
            return PlanGenerationResult(ST[beh], None, self.name)
        if timeout is not None and timeout <= 0:
            call["result"] = "TIMEOUT"
            return PlanGenerationResult(ST.TIMEOUT, None, self.name)
        try:
            desc = problem_desc(problem)
        except Unsupported as ex:
            call["result"] = "UNSUPPORTED:" + str(ex)
            sc.clock.now += sc.latency
            return PlanGenerationResult(ST.UNSUPPORTED_PROBLEM, None, self.name)
        call["desc"] = desc
        res = search(desc)
        cost = sc.latency + sc.rate * res["expanded"]
        if timeout is not None and cost > timeout:
            sc.clock.now += timeout
            call["result"] = "TIMEOUT"
            return PlanGenerationResult(ST.TIMEOUT, None, self.name)
        sc.clock.now += cost
        if res["plan"] is not None:
            items = [ActionInstance(problem.action(an), [problem.object(o) for o in ps]) for an, ps in res["plan"]]
            call["result"] = "plan"
            return PlanGenerationResult(ST.SOLVED_SATISFICING, SequentialPlan(items), self.name)
        call["result"] = "incomplete" if res["incomplete"] else "unsolvable"
        return PlanGenerationResult(ST.UNSOLVABLE_INCOMPLETELY if res["incomplete"] else ST.UNSOLVABLE_PROVEN,
                                    None, self.name)


class MetaSim(SimEngine):
    name = "metasim"
    props = ("C31",)
    nruns = {"quick": 5000, "thorough": 400000}
    budgets = {"quick": 60.0, "thorough": 540.0}
    rule = (
        "script = (optionally an earlier solve on the same planner object -- of the same problem or of the world minus some actions -- "
        "with its own peer failures and timeout, then) finite problem "
        "(Booleans and ints in small ranges, optionally a copy chain behind an interpreted function, optionally a parametrised fluent over two objects and a step gated "
        "by forall/exists over an interpreted function; <= 300 reachable states) either with 1-2 interpreted "
        "functions in preconditions and effect values (solved through interpreted_functions_planning[simstub]) or with an "
        "oversubscription metric of 2-4 soft goals with positive / equal / negative gains and optional hard goals (solved "
        "through oversubscription[simstub]); timeout in {None, generous, tight}; per peer call a scripted behaviour (ok, "
        "MEMOUT, INTERNAL_ERROR, UNSOLVABLE_INCOMPLETELY, raise; TIMEOUT when the virtual budget is really exceeded) and "
        "clock jumps between peer calls. Oracles: any plan returned is valid for the original problem (reference "
        "interpreter, real function tables); fault-free and without timeout the IF planner finds a plan iff exhaustive search "
        "does, the oversubscription planner reports SOLVED_OPTIMALLY with the maximal gain or UNSOLVABLE_PROVEN iff the hard "
        "goals are unreachable; under faults positive statuses still come with valid plans, SOLVED_OPTIMALLY still means "
        "maximal gain, UNSOLVABLE_PROVEN still means unsolvable, the number of peer calls is bounded, and (no backward clock "
        "jump) TIMEOUT is reported only when the virtual time consumed reached the timeout. non-trivial = >= 2 peer calls AND "
        "(fault profile) >= 1 fired peer fault or clock jump; distinct = digest of (meta-engine, status, peer-call outcomes)"
    )
    real_components = ("InterpretedFunctionsPlanner", "OversubscriptionPlanner", "MetaEngine, Factory (registration / look-up)",
                       "InterpretedFunctionsRemover", "SequentialPlanValidator + UPSequentialSimulator", "Problem.clone")
    stub_components = ("StubPlanner: exact breadth-first planner over the reference interpreter, virtual-time cost model, "
                       "scripted failures", "SimClock: module attribute `time` of the two meta-engine modules",
                       "interpreted-function callables (script tables)")
    assumptions = (
        "the premise of C31 (underlying planner returns only valid plans and is complete on finite problems) is provided by "
        "the stub in the fault-free profile; in the fault profile the stub stays truthful but individual calls fail",
        "optimality of interpreted-functions plans is not required",
    )

    @staticmethod
    def why_lost(calls, plan):
        """Refinement of the class of a wrong UNSOLVABLE_PROVEN: follows the solving plan of the original problem
        through the problem the stub was last asked about, each step through ANY compiled variant of the original
        action (`a`, `a_0`, ... with any grounding of the helper parameters).  If the plan cannot be completed there
        and one of the blocked steps fails on a type bound while some `_<fluent>_is_unknown` flag is set, the
        abstraction kept the STALE value of a fluent it declares unknown (known finding
        C31-unknown-fluent-keeps-stale-value)."""
        import re
        last = next((c for c in reversed(calls) if c.get("result") == "unsolvable" and c.get("desc")), None)
        if last is None or plan is None:
            return ""
        try:
            rs = RefSem(last["desc"])
            names = [a["name"] for a in last["desc"]["actions"]]
            blocked = []
            budget = [2000]

            def variants(an):
                return [n for n in names if n == an or re.fullmatch(re.escape(an) + r"_\d+", n)]

            cond_reads_unknown = [False]
            acts = {a["name"]: a for a in last["desc"]["actions"]}

            def mentions(e, names):
                if isinstance(e, list):
                    if e and e[0] == "f" and len(e) > 1 and e[1] in names:
                        return True
                    return any(mentions(c, names) for c in e)
                return False

            def follow(st, idx):
                if idx == len(plan):
                    try:
                        return rs.is_goal(st)
                    except Ambiguous:
                        return True
                unknown_now = {k[0][1:-len("_is_unknown")] for k, v in st.items()
                               if k[0].startswith("_") and k[0].endswith("_is_unknown") and v is True}
                for cn in variants(plan[idx][0]):
                    if unknown_now and any(ed.get("cond") is not None and mentions(ed["cond"], unknown_now)
                                           for ed in acts[cn].get("effects", [])):
                        cond_reads_unknown[0] = True
                    for ps in rs.ground_instances(cn):
                        budget[0] -= 1
                        if budget[0] < 0:
                            return False
                        try:
                            ok, new, why = rs.successor(st, cn, tuple(ps))
                        except Ambiguous:
                            continue
                        if ok:
                            if follow(new, idx + 1):
                                return True
                        else:
                            unknown = any(k[0].startswith("_") and k[0].endswith("_is_unknown") and v is True
                                          for k, v in st.items())
                            blocked.append((why, unknown))
                return False

            if follow(rs.initial_state(), 0):
                return ""
            if any(w == "bound" and u for w, u in blocked):
                return "/stale-value-of-unknown-fluent-out-of-bounds"
            if cond_reads_unknown[0]:
                # every variant sequence either got stuck or missed the goal, and on the way a conditional effect
                # evaluated its condition on the stale value of a fluent flagged unknown
                return "/stale-value-of-unknown-fluent-read-by-effect-condition"
            return ""
        except Exception:
            return ""

    def profiles(self, tier):
        return ["if-clean", "os-clean", "if-faults", "os-faults", "if-timeout", "os-timeout"]

    # ----------------------------------------------------------------- generate
    def generate(self, seed, profile, tier):
        rw, ra, rf = stream(seed, "world"), stream(seed, "actions"), stream(seed, "faults")
        kind = "if" if profile.startswith("if") else "os"
        nfl = rw.randint(2, 3)
        fluents = []
        for i in range(nfl):
            if i == 0 or rw.random() < 0.5:
                fluents.append({"name": f"x{i}", "type": ["int", 0, 4], "params": [], "default": None})
            else:
                fluents.append({"name": f"b{i}", "type": ["bool"], "params": [], "default": None})
        init = []
        for fd in fluents:
            init.append([["f", fd["name"]], ["int", rw.randint(0, 2)] if fd["type"][0] == "int" else ["bool", rw.random() < 0.3]])
        ifuns = []
        if kind == "if":
            for j in range(rw.choice([1, 1, 2])):
                if rw.random() < 0.7:
                    ifuns.append({"name": f"g{j}", "ret": ["int", 0, 4], "params": [["int", 0, 4]],
                                  "table": [[[k], ["int", rw.randint(0, 4)]] for k in range(5)], "default": ["int", 0]})
                else:
                    ifuns.append({"name": f"g{j}", "ret": ["bool"], "params": [["int", 0, 4]],
                                  "table": [[[k], ["bool", rw.random() < 0.5]] for k in range(5)], "default": ["bool", False]})
        world = {"types": [], "objects": [], "fluents": fluents, "init": init, "ifuns": ifuns, "invariants": []}
        ints = [f for f in fluents if f["type"][0] == "int"]
        bools = [f for f in fluents if f["type"][0] == "bool"]

        def num_atom():
            return ["f", ra.choice(ints)["name"]] if ra.random() < 0.7 else ["int", ra.randint(0, 4)]

        def cond(use_if):
            c = ra.random()
            if use_if and ifuns and c < 0.6:
                g = ra.choice(ifuns)
                call = ["if", g["name"], ["f", ra.choice(ints)["name"]]]
                if g["ret"][0] == "bool":
                    return call if ra.random() < 0.7 else ["not", call]
                return [ra.choice(["le", "lt", "eq", "ge"]), call, ["int", ra.randint(0, 4)]]
            if bools and c < 0.8:
                b = ["f", ra.choice(bools)["name"]]
                return b if ra.random() < 0.6 else ["not", b]
            return [ra.choice(["le", "lt", "eq", "ge"]), num_atom(), ["int", ra.randint(0, 4)]]

        actions = []
        for ai in range(ra.randint(2, 4)):
            pre = [cond(kind == "if") for _ in range(ra.choice([0, 1, 1, 2]))]
            if len(pre) == 2 and (json.dumps(pre[0]) == json.dumps(["not", pre[1]]) or
                                  json.dumps(pre[1]) == json.dumps(["not", pre[0]])) and ra.random() < 0.9:
                # `c and not c` is folded away at grounding time: see known finding C31-contradictory-preconditions
                pre = pre[:1]
            effects = []
            taken = set()
            for _ in range(ra.randint(1, 2)):
                fd = ra.choice(fluents)
                if fd["name"] in taken:
                    continue
                taken.add(fd["name"])
                if fd["type"][0] == "bool":
                    effects.append({"kind": "assign", "fluent": ["f", fd["name"]], "value": ["bool", ra.random() < 0.6],
                                    "cond": None, "forall": []})
                else:
                    c = ra.random()
                    int_ifs = [g for g in ifuns if g["ret"][0] == "int"]
                    if kind == "if" and int_ifs and c < 0.35:
                        val = ["if", ra.choice(int_ifs)["name"], ["f", ra.choice(ints)["name"]]]
                        effects.append({"kind": "assign", "fluent": ["f", fd["name"]], "value": val, "cond": None, "forall": []})
                    elif c < 0.7:
                        effects.append({"kind": ra.choice(["inc", "inc", "dec"]), "fluent": ["f", fd["name"]],
                                        "value": ["int", 1], "cond": None, "forall": []})
                    else:
                        effects.append({"kind": "assign", "fluent": ["f", fd["name"]], "value": ["int", ra.randint(0, 4)],
                                        "cond": cond(False) if ra.random() < 0.3 else None, "forall": []})
            if effects:
                actions.append({"name": f"a{ai}", "params": [], "pre": pre, "effects": effects})
        if kind == "if" and ifuns and ra.random() < 0.8:
            # a gated step towards the goal: the plan the peer finds under optimistic assumptions about
            # the interpreted function is often wrong, so that the planner has to learn and re-plan
            g = ra.choice(ifuns)
            call = ["if", g["name"], ["f", "x0"]]
            gate = call if g["ret"][0] == "bool" else [ra.choice(["ge", "le", "eq"]), call, ["int", ra.randint(1, 3)]]
            actions.insert(0, {"name": "step", "params": [], "pre": [gate],
                               "effects": [{"kind": "inc", "fluent": ["f", "x0"], "value": ["int", 1], "cond": None, "forall": []}]})
            if ra.random() < 0.6:
                other = ["f", ra.choice(ints)["name"]]
                gate2 = ["if", g["name"], other] if g["ret"][0] == "bool" else ["le", ["if", g["name"], other], ["int", ra.randint(0, 3)]]
                actions.insert(1, {"name": "jump", "params": [], "pre": [gate2],
                                   "effects": [{"kind": "assign", "fluent": ["f", "x0"], "value": ["int", ra.randint(2, 4)],
                                                "cond": None, "forall": []}]})
        int_ifs_ = [g for g in ifuns if g["ret"][0] == "int"]
        chain_goal = None
        if kind == "if" and int_ifs_ and ra.random() < 0.2:
            # a COPY CHAIN: c1 := g(x0), c2 := c1, c3 := c2, goal on c3 -- the actions are declared in any order (the
            # reversed one needs the remover's "which fluents may become unknown" scan to reach its fixpoint)
            g = ra.choice(int_ifs_)
            for nm in ("c1", "c2", "c3"):
                fluents.append({"name": nm, "type": ["int", 0, 4], "params": [], "default": None})
                init.append([["f", nm], ["int", 0]])
            chain = [{"name": "src", "params": [], "pre": [],
                      "effects": [{"kind": "assign", "fluent": ["f", "c1"], "value": ["if", g["name"], ["f", "x0"]],
                                   "cond": None, "forall": []}]},
                     {"name": "cp2", "params": [], "pre": [],
                      "effects": [{"kind": "assign", "fluent": ["f", "c2"], "value": ["f", "c1"], "cond": None, "forall": []}]},
                     {"name": "cp3", "params": [], "pre": [],
                      "effects": [{"kind": "assign", "fluent": ["f", "c3"], "value": ["f", "c2"], "cond": None, "forall": []}]}]
            order = ra.choice([[2, 1, 0], [2, 1, 0], [0, 1, 2], [1, 2, 0], [2, 0, 1]])
            # few other actions: the chain multiplies the state space
            actions = actions[:2] + [chain[i] for i in order]
            x0_init = next(v[1] for fe, v in init if fe[1] == "x0")
            tv = next((v[1] for k, v in g["table"] if k == [x0_init]), g["default"][1])
            chain_goal = ["eq", ["f", "c3"], ["int", tv]] if ra.random() < 0.7 else ["ge", ["f", "c3"], ["int", 1]]
        if kind == "if" and ifuns and chain_goal is None and ra.random() < 0.35:
            # an interpreted function under a QUANTIFIER: a parametrised fluent lev(l) over two objects, a step
            # towards the goal gated by `forall/exists l. g(lev(l)) ...`, and actions that change lev
            g = ra.choice(ifuns)
            world["types"] = [["L", None]]
            world["objects"] = [["l0", "L"], ["l1", "L"]]
            fluents.append({"name": "lev", "type": ["int", 0, 2], "params": [["l", ["user", "L"]]], "default": None})
            for o in ("l0", "l1"):
                init.append([["f", "lev", ["o", o]], ["int", ra.randint(0, 1)]])
            call = ["if", g["name"], ["f", "lev", ["v", "l", ["user", "L"]]]]
            body = call if g["ret"][0] == "bool" else [ra.choice(["ge", "le", "eq"]), call, ["int", ra.randint(0, 3)]]
            if ra.random() < 0.3:
                body = ["not", body]
            q = [ra.choice(["forall", "forall", "exists"]), [["l", ["user", "L"]]], body]
            actions.insert(0, {"name": "qstep", "params": [], "pre": [q],
                               "effects": [{"kind": "inc", "fluent": ["f", "x0"], "value": ["int", 1], "cond": None, "forall": []}]})
            for o in ("l0", "l1"):
                actions.append({"name": "up_" + o, "params": [], "pre": [],
                                "effects": [{"kind": ra.choice(["inc", "inc", "dec"]), "fluent": ["f", "lev", ["o", o]],
                                             "value": ["int", 1], "cond": None, "forall": []}]})
        world["actions"] = actions

        def goal():
            if bools and ra.random() < 0.4:
                b = ["f", ra.choice(bools)["name"]]
                return b if ra.random() < 0.7 else ["not", b]
            return [ra.choice(["eq", "ge", "le"]), ["f", ra.choice(ints)["name"]], ["int", ra.randint(0, 4)]]

        script = {"engine": self.name, "kind": kind, "world": world}
        re_ = stream(seed, "earlier-solve")
        if re_.random() < 0.3:
            script["earlier_solve"] = {
                "behaviours": [re_.choice(["ok", "ok", "INTERNAL_ERROR", "MEMOUT", "UNSOLVABLE_INCOMPLETELY"]) for _ in range(6)],
                "timeout": re_.choice([None, 2, 6, 15, 40])}
            script["_drop_candidates"] = True
        if kind == "if":
            world["goals"] = [goal() for _ in range(ra.choice([0, 1, 1]))]
            x0_init = next(v[1] for f_, v in init if f_[1] == "x0")
            world["goals"].append(["ge", ["f", "x0"], ["int", min(4, x0_init + ra.randint(1, 3))]])
            if chain_goal is not None:
                world["goals"] = [chain_goal]
        else:
            world["goals"] = [goal()] if ra.random() < 0.5 else []
            soft = []
            for _ in range(ra.randint(2, 4)):
                g_ = goal()
                if all(json.dumps(g_) != json.dumps(x[0]) for x in soft):
                    soft.append([g_, ra.choice([1, 2, 2, 3, 5, -1, -2])])
            script["soft"] = soft
        # peer behaviour
        script["latency"] = rf.choice([1, 2, 5])
        script["rate"] = rf.choice([0.01, 0.1, 0.5])
        script["behaviours"] = []
        script["jumps"] = {}
        script["timeout"] = None
        if profile.endswith("faults"):
            n = rf.randint(1, 3)
            beh = ["ok"] * 12
            for _ in range(n):
                beh[rf.randint(0, 5)] = rf.choice(["MEMOUT", "INTERNAL_ERROR", "UNSOLVABLE_INCOMPLETELY", "raise"])
            script["behaviours"] = beh
            if rf.random() < 0.4:
                script["jumps"][str(rf.randint(0, 3))] = rf.choice([50.0, 500.0, -30.0, 0.0])
            if rf.random() < 0.3:
                script["timeout"] = rf.choice([1000.0, 200.0])
        elif profile.endswith("timeout"):
            script["timeout"] = rf.choice([0.5, 2.0, 6.0, 15.0, 40.0, 150.0])
            if rf.random() < 0.4:
                script["jumps"][str(rf.randint(0, 3))] = rf.choice([5.0, 50.0, -30.0])
        if script.pop("_drop_candidates", False) and re_.random() < 0.5 and len(world["actions"]) >= 2:
            names = [a["name"] for a in world["actions"]]
            k_ = re_.randint(1, max(1, len(names) // 2))
            # (the tail of the action list: in the copy-chain worlds that is where the chain sits)
            script["earlier_solve"]["drop_actions"] = names[-k_:] if re_.random() < 0.6 else re_.sample(names, k_)
        return script

    # ------------------------------------------------------------------ execute
    def execute(self, script, ctx):
        import unified_planning.environment as envmod

        clock = SimClock()
        saved = (ifp_mod.time, osp_mod.time, StubPlanner.scenario, envmod.GLOBAL_ENVIRONMENT)
        ifp_mod.time = clock
        osp_mod.time = clock
        # InterpretedFunctionsRemover creates its helper fluents in the GLOBAL environment
        # whatever the environment of the problem is, so the run needs the problem to live
        # there: every run gets a brand-new global environment
        envmod.GLOBAL_ENVIRONMENT = envmod.Environment()
        try:
            with warnings.catch_warnings():
                warnings.simplefilter("ignore")
                return self._run(script, ctx, clock)
        finally:
            ifp_mod.time, osp_mod.time, StubPlanner.scenario, envmod.GLOBAL_ENVIRONMENT = saved

    def _run(self, script, ctx, clock):
        world = script["world"]
        kind = script["kind"]
        try:
            import unified_planning.environment as envmod
            W = World(world, env=envmod.GLOBAL_ENVIRONMENT, strict=True)
            problem = W.problem()
            # the generator initialises every fluent and gives an oversubscription problem at least one soft goal;
            # a script without (a minimised one) is not a problem of the quantified family
            rs0 = RefSem(world)
            st0 = rs0.initial_state()
            if any(tuple(gf) not in st0 for gf in rs0.ground_fluents()):
                ctx.probe("discarded-uninitialised-fluent")
                return False
            if kind == "os" and not script.get("soft"):
                ctx.probe("discarded-no-soft-goal")
                return False
            soft = []
            if kind == "os":
                soft = [(W.expr(g), w) for g, w in script["soft"]]
                if len({g for g, _ in soft}) != len(soft):
                    ctx.probe("discarded-duplicate-soft-goal")
                    return False
                problem.add_quality_metric(Oversubscription(dict(soft), environment=W.env))
        except BuildError:
            raise
        except Exception as ex:
            ctx.probe("discarded-unbuildable-world:" + type(ex).__name__ + ":" + str(ex)[:70])
            return False
        # ground truth by exhaustive search of the ORIGINAL problem
        truth = search(world)
        rs = truth["rs"]
        if truth["incomplete"]:
            ctx.probe("discarded-ambiguous-or-too-large")
            return False
        sc = Scenario(clock, script.get("behaviours", []), script.get("jumps", {}), script["latency"], script["rate"])
        StubPlanner.scenario = sc
        env = W.env
        env.factory.add_engine("simstub", "sim.engines.metasim", "StubPlanner")
        ename = ("interpreted_functions_planning" if kind == "if" else "oversubscription") + "[simstub]"
        ctx.op_index = 0
        ctx.ops += 1
        t_enter = clock.now
        T = script.get("timeout")
        try:
            planner = env.factory.OneshotPlanner(name=ename)
            planner.skip_checks = False
        except Exception as ex:
            ctx.fail("C31.factory", f"Factory.OneshotPlanner(name={ename!r}) raised {type(ex).__name__}: {str(ex)[:200]}",
                     cls=type(ex).__name__)
        pre = script.get("earlier_solve")
        if pre:
            # an EARLIER solve on the same planner object, with its own peer failures and timeout: whatever it did must
            # not leak into the solve that is judged
            StubPlanner.scenario = Scenario(clock, pre.get("behaviours", []), {}, script["latency"], script["rate"])
            problem0 = problem
            if pre.get("drop_actions"):
                # ... on ANOTHER problem: the same world without some of its actions
                try:
                    w0 = dict(world, actions=[a for a in world["actions"] if a["name"] not in pre["drop_actions"]])
                    problem0 = World(w0, env=envmod.GLOBAL_ENVIRONMENT, strict=True).problem()
                    ctx.probe("earlier-solve-on-another-problem")
                except Exception:
                    problem0 = problem
            try:
                planner.solve(problem0, timeout=pre.get("timeout"))
            except Exception as ex:
                ctx.ev("earlier solve raised", type(ex).__name__)
            ctx.probe("earlier-solve-on-the-same-planner")
            StubPlanner.scenario = sc
            t_enter = clock.now
        raised = None
        res = None
        try:
            res = planner.solve(problem, timeout=T)
        except SimFault:
            raised = "SimFault"
        except Exception as ex:
            raised = type(ex).__name__
            ctx.ev("raised", raised, str(ex)[:120])
        consumed = clock.now - t_enter
        ctx.sim_time = max(0.0, consumed)
        calls = sc.calls
        outcomes = [c.get("result", c["behaviour"]) for c in calls]
        fired = [c["behaviour"] for c in calls if c["behaviour"] != "ok"]
        for f in script.get("behaviours", []):
            if f != "ok":
                ctx.faults_cfg["peer:" + f] += 1
        for f in fired:
            ctx.faults_fired["peer:" + f] += 1
        for k_ in script.get("jumps", {}):
            ctx.faults_cfg["clock-jump"] += 1
            if int(k_) < len(calls):
                ctx.faults_fired["clock-jump"] += 1
        if any(c.get("result") == "TIMEOUT" for c in calls):
            ctx.probe("peer-timeout")
        status = res.status if res is not None else None
        ctx.ev(kind, "status", status.name if status else raised, "calls", outcomes, "T", T)
        ctx.outcome(kind, (status.name if status else "raised:" + str(raised)) + "|" + ",".join(map(str, outcomes)))
        faulty = bool(fired) or raised == "SimFault"
        clean = not fired and T is None and not script.get("jumps")
        # ---- a peer exception may propagate (the statement says nothing about it) but nothing else may
        if raised is not None:
            if raised == "SimFault" or "raise" in fired:
                ctx.probe("peer-exception-propagated")
                return len(calls) >= 2
            # the statement promises valid plans and, for a complete fault-free peer, a plan whenever
            # the problem is solvable; it does not say how an unsolvable problem is reported
            solvable_ = truth["plan"] is not None
            if clean and solvable_:
                contradictory = any(json.dumps(["not", c]) in [json.dumps(d) for d in a["pre"]]
                                    for a in world["actions"] for c in a["pre"])
                ctx.fail("C31.complete", f"{ename}.solve raised {raised} on a solvable problem (plan {truth['plan']}; "
                         f"peer calls: {outcomes})",
                         cls="raised-" + raised + ("/action-with-contradictory-preconditions" if contradictory else ""))
            ctx.probe("raised-without-obligation:" + raised)
            return len(calls) >= 2
        # ---- bounded progress
        if kind == "if":
            bound = sum(5 ** len(g["params"]) for g in world["ifuns"]) + 2
        else:
            bound = 2 ** len(script["soft"])
        ctx.check("C31.bounded-peer-calls", len(calls) <= bound,
                  f"{ename} called the underlying planner {len(calls)} times (bound {bound})", cls="too-many-calls")
        # ---- any plan returned is valid for the original problem
        gain = None
        if res.plan is not None:
            st = rs.initial_state()
            ok = True
            why = ""
            for j, ai in enumerate(res.plan.actions):
                try:
                    a_ok, new, w_ = rs.successor(st, ai.action.name, tuple(p.object().name for p in ai.actual_parameters))
                except Ambiguous:
                    ok, why = None, "ambiguous"
                    break
                except KeyError:
                    ok, why = False, f"unknown action {ai.action.name}"
                    break
                if not a_ok:
                    ok, why = False, f"step {j} ({ai.action.name}) inapplicable: {w_}"
                    break
                st = new
            if ok:
                try:
                    if not rs.is_goal(st):
                        ok, why = False, "the final state does not satisfy the goals"
                except Ambiguous:
                    ok = None
            if ok is None:
                ctx.skipped += 1
            else:
                ctx.check("C31.plan-valid", ok, f"{ename} returned the plan {[a.action.name for a in res.plan.actions]} "
                          f"with status {status.name}; for the original problem: {why}", cls="invalid-plan")
                if kind == "os":
                    gain = Fraction(0)
                    for g, w_ in script["soft"]:
                        if rs.cond(g, st, {}):
                            gain += w_
        if status in POSITIVE:
            ctx.check("C31.positive-status-has-plan", res.plan is not None, f"{ename}: status {status.name} without a plan",
                      cls="no-plan")
        # ---- truthful statuses
        if kind == "if":
            solvable = truth["plan"] is not None
            if status == ST.UNSOLVABLE_PROVEN:
                ctx.check("C31.unsolvable-proven-is-true", not solvable,
                          f"{ename} reports UNSOLVABLE_PROVEN but the plan {truth['plan']} solves the problem "
                          f"(peer calls: {outcomes})", cls="false-unsolvable" + self.why_lost(calls, truth["plan"]))
            if clean:
                ctx.check("C31.complete", (status in POSITIVE) == solvable,
                          f"{ename} with a fault-free complete planner and no timeout reports {status.name}; exhaustive "
                          f"search says the problem is {'solvable by ' + str(truth['plan']) if solvable else 'unsolvable'} "
                          f"(peer calls: {outcomes})", cls="incomplete-" + status.name)
        else:
            best = None
            for st_ in truth["states"]:
                try:
                    if not rs.is_goal(st_):
                        continue
                    g_ = sum((Fraction(w_) for g, w_ in script["soft"] if rs.cond(g, st_, {})), Fraction(0))
                except Ambiguous:
                    continue
                best = g_ if best is None or g_ > best else best
            if status == ST.SOLVED_OPTIMALLY and gain is not None:
                ctx.check("C31.optimal-is-maximal", best is not None and gain == best,
                          f"{ename} reports SOLVED_OPTIMALLY with gain {gain}; the maximal gain over reachable states "
                          f"satisfying the hard goals is {best} (peer calls: {outcomes})", cls="not-maximal")
            if status == ST.UNSOLVABLE_PROVEN:
                ctx.check("C31.unsolvable-proven-is-true", best is None,
                          f"{ename} reports UNSOLVABLE_PROVEN but a reachable state satisfies the hard goals "
                          f"(peer calls: {outcomes})", cls="false-unsolvable")
            if clean:
                want = ST.SOLVED_OPTIMALLY if best is not None else ST.UNSOLVABLE_PROVEN
                ctx.check("C31.complete", status == want,
                          f"{ename} with a fault-free complete planner and no timeout reports {status.name}, expected "
                          f"{want.name} (maximal gain {best}; peer calls: {outcomes})", cls="wrong-status-" + status.name)
        # ---- TIMEOUT only when the budget was really used up (virtual time, no backward jumps)
        if status == ST.TIMEOUT and T is not None and not any(v < 0 for v in script.get("jumps", {}).values()):
            ctx.probe("timeout-reported")
            ctx.check("C31.timeout-only-when-budget-exhausted", consumed >= T - 1e-9,
                      f"{ename} reports TIMEOUT after {consumed:g} virtual seconds of a {T:g} s budget (peer calls: "
                      f"{[(c['timeout'], c.get('result')) for c in calls]})", cls="early-timeout")
        if status == ST.TIMEOUT and T is None:
            ctx.fail("C31.timeout-only-when-budget-exhausted", f"{ename} reports TIMEOUT although no timeout was given",
                     cls="timeout-without-budget")
        ctx.states.add(digest([kind, status.name, len(calls)]))
        nt = len(calls) >= 2
        if script.get("profile", "").endswith("faults"):
            nt = nt and (faulty or any(int(k_) < len(calls) for k_ in script.get("jumps", {})))
        return nt
