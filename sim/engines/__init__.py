# property id -> (module, class)
REGISTRY = {
    "C14": ("envhist", "EnvHist"),
    "C16": ("conshist", "ConsHist"),
    "C36": ("statehist", "StateHist"),
}
