# property id -> (module, class)
REGISTRY = {
    "C36": ("statehist", "StateHist"),
}
