# property id -> (module, class)
REGISTRY = {
    "C01": ("simrun", "SimRun"),
    "C02": ("simrun", "SimRun"),
    "C14": ("envhist", "EnvHist"),
    "C16": ("conshist", "ConsHist"),
    "C36": ("statehist", "StateHist"),
}
