# property id -> (module, class)
REGISTRY = {
    "C01": ("simrun", "SimRun"),
    "C02": ("simrun", "SimRun"),
    "C14": ("envhist", "EnvHist"),
    "C16": ("conshist", "ConsHist"),
    "C22": ("modelhist", "ModelHist"),
    "C23": ("modelhist", "ModelHist"),
    "C24": ("modelhist", "ModelHist"),
    "C25": ("stnhist", "StnHist"),
    "C31": ("metasim", "MetaSim"),
    "C35": ("envsim", "EnvSim"),
    "C36": ("statehist", "StateHist"),
    "C38": ("writerhist", "WriterHist"),
}
