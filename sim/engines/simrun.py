"""C01 / C02 -- one long-lived UPSequentialSimulator under a query history (engine `simrun`).

Real code: UPSequentialSimulator, GrounderHelper, StateEvaluator, QuantifierSimplifier,
UPState, Problem/Action/Effect, ExpressionManager and the environment's shared walkers.
Stubs: interpreted-function and simulated-effect callables (table look-ups).
Reference (C01 only): sim/refsem.py on the world descriptor.
"""
import json
from fractions import Fraction

from ..core import Engine, stream, BuildError, digest
from ..build import World
from ..gen import ExprGen, gen_types, values_of, subtype_of
from ..refsem import RefSem, Ambiguous, UNDEF, state_key
from ..inject import Callbacks

from unified_planning.plans import ActionInstance
from .statehist import KNOBS

from unified_planning.model import UPState
from unified_planning.engines.sequential_simulator import UPSequentialSimulator
from unified_planning.exceptions import UPStateMissingFluentError


def fe_key(fe):
    return (fe[1],) + tuple(a[1] for a in fe[2:])


class SimRun(Engine):
    name = "simrun"
    props = ("C01", "C02")
    nruns = {"quick": 4000, "thorough": 200000}
    budgets = {"quick": 40.0, "thorough": 540.0}
    real_components = (
        "UPSequentialSimulator (one instance per run, reused by every query)", "GrounderHelper", "StateEvaluator / "
        "QuantifierSimplifier", "UPState (ancestor-limit knob randomised)", "Problem / InstantaneousAction / Effect",
        "environment-wide Simplifier, Substituter, TypeChecker, ExpressionManager",
    )
    stub_components = ("interpreted-function callables (script tables)", "simulated-effect callables (script tables)")

    @property
    def rule(self):
        base = (
            "script = small world (1-2 user types with a subtype, 2-4 objects, 2-5 fluents among Boolean / bounded int / "
            "real / object-valued, some parametrised, some with no initial value; 2-4 actions with 0-2 parameters, typed "
            "preconditions with quantifiers and interpreted functions, 1-4 assign/increase/decrease effects that may be "
            "conditional or forall, optional simulated effect; 0-2 state invariants; goals) + 15-60 queries on ONE "
            "simulator instance over a growing pool of states (apply, is_applicable, get_applicable_actions, is_goal, "
            "get_unsatisfied_goals, full read, hash, ==; queries also through ActionInstance / a cloned action / expression parameters; "
            "30% of the get_applicable_actions iterators advanced 0-2 items, suspended for the next 1-4 queries, then drained), "
            "~30% re-asked later, under ancestor limit in {1,2,3,20,None}; in half of the worlds that have an interpreted function, "
            "1-3 queries during which that function raises at its n-th call (not judged themselves; everything after them is). "
        )
        if self.prop == "C01":
            return base + (
                "Every verdict and successor is compared with the reference interpreter. non-trivial = a successor was "
                "produced through a conditional, forall, accumulating or add-after-delete effect, or a query was refused "
                "for a conflict / bound / invariant / undefined read, AND >= 3 later queries were judged; distinct = digest "
                "of the (query kind, outcome class) sequence")
        return base + (
            "non-trivial = at least one query failed internally (undefined fluent read, conflicting effects, bound or "
            "invariant violated) AND >= 3 later queries were judged, or >= 3 re-asked queries; distinct = digest of the "
            "(query kind, outcome class) sequence")

    assumptions = (
        "parameters handed to the simulator are always well-typed objects",
        "steps whose outcome the C01 statement leaves open are skipped and counted (assignment+increase on one ground "
        "fluent, undefined fluent read by an effect, strict vs short-circuit reading of an undefined fluent)",
    )

    def profiles(self, tier):
        return ["default", "undefined", "numeric", "default"]

    # ---------------------------------------------------------------- generate
    def gen_world(self, rw, profile):
        types, objs = gen_types(rw)
        tmap = dict(types)
        tnames = [t for t, _ in types]
        nfl = rw.randint(2, 5)
        fluents = []
        kinds_pool = {"default": ["bool", "bool", "int", "real", "user", "bool", "ubint"],
                      "undefined": ["bool", "bool", "uint", "real", "user", "int"],
                      "numeric": ["int", "int", "real", "bool", "uint", "breal", "ubint", "lbint", "ubreal", "fbreal"]}[profile]
        from ..gen import FLUENT_TYPES
        for i in range(nfl):
            k = rw.choice(kinds_pool)
            t = list(FLUENT_TYPES[k]) if k != "user" else ["user", rw.choice(tnames)]
            fd = {"name": f"f{i}", "type": t, "params": []}
            if rw.random() < 0.35:
                fd["params"] = [["x0", ["user", rw.choice(tnames)]]]
            fluents.append(fd)
        if not any(f["type"][0] == "bool" for f in fluents):
            fluents[0]["type"] = ["bool"]
        world = {"types": types, "objects": objs, "fluents": fluents}
        # initial values
        p_undef = {"default": 0.1, "undefined": 0.3, "numeric": 0.05}[profile]
        init = []
        rs = RefSem(world)
        for fd in fluents:
            t = fd["type"]
            bounded = t[0] in ("int", "real") and (t[1] is not None or t[2] is not None)
            vals = values_of(t, objs, tmap)
            if not vals:
                fd["default"] = None
                continue
            r = rw.random()
            if r < 0.4:
                fd["default"] = rw.choice(vals)
            else:
                fd["default"] = None
            for gf in rs.ground_fluents():
                if gf[0] != fd["name"]:
                    continue
                fe = ["f", gf[0]] + [["o", o] for o in gf[1:]]
                if fd["default"] is not None:
                    if rw.random() < 0.3:
                        init.append([fe, rw.choice(vals)])
                elif bounded or rw.random() >= p_undef:
                    init.append([fe, rw.choice(vals)])
        world["init"] = init
        # interpreted functions
        ifuns = []
        if rw.random() < 0.4:
            if rw.random() < 0.5:
                ifuns.append({"name": "if0", "ret": ["int", None, None], "params": [["int", None, None]],
                              "table": [[[k], ["int", rw.randint(-1, 3)]] for k in range(0, 4)], "default": ["int", 1]})
            else:
                ifuns.append({"name": "if0", "ret": ["bool"], "params": [["user", tnames[0]]],
                              "table": [[[o], ["bool", rw.random() < 0.5]] for o, _ in objs], "default": ["bool", False]})
        world["ifuns"] = ifuns
        return world

    def gen_actions(self, ra, world):
        tmap = dict(world["types"])
        tnames = [t for t, _ in world["types"]]
        objs = world["objects"]
        fluents = world["fluents"]
        actions = []
        for ai in range(ra.randint(2, 4)):
            params = []
            for pi in range(ra.choice([0, 1, 1, 2])):
                params.append([f"p{pi}", ["user", ra.choice(tnames)]])
            g = ExprGen(ra, world, [(n, t) for n, t in params], div=False, const_range=(0, 3))
            pre = [g.bool_expr(ra.randint(0, 2)) for _ in range(ra.choice([0, 1, 1, 2]))]
            effects = []
            uncond_taken = set()   # fluent symbols with an unconditional non-bool assignment
            incdec_taken = set()
            family = {}            # fluent symbol -> "assign" | "incdec" (first kind used in this action)
            for ei in range(ra.randint(1, 4)):
                fd = ra.choice(fluents)
                t = fd["type"]
                fa = []
                if fd["params"] and ra.random() < 0.3:
                    vt = fd["params"][0][1][1]
                    sub = [x for x in tnames if subtype_of(tmap, x, vt)]
                    fa = [["e%d" % ei, ["user", ra.choice(sub)]]]
                    g.vars.append((fa[0][0], fa[0][1]))
                try:
                    try:
                        target = ["f", fd["name"]] + [g.obj_expr(pt[1], 0) if not fa else ["v", fa[0][0], fa[0][1]]
                                                       for _, pt in fd["params"]]
                    except ValueError:
                        continue
                    cond = g.bool_expr(ra.randint(0, 1)) if ra.random() < 0.4 else None
                    kind = "assign"
                    if t[0] in ("int", "real") and ra.random() < 0.45:
                        kind = ra.choice(["inc", "dec"])
                    # an assignment and an increase reaching one ground fluent is a step the statement
                    # leaves open (it is skipped, not judged): generate it only rarely
                    fam = family.get(fd["name"])
                    if fam is not None and ra.random() < 0.9:
                        if fam == "assign":
                            kind = "assign"
                        elif t[0] in ("int", "real") and kind == "assign":
                            kind = ra.choice(["inc", "dec"])
                    family.setdefault(fd["name"], "assign" if kind == "assign" else "incdec")
                    if t[0] == "bool":
                        value = ["bool", ra.random() < 0.55] if ra.random() < 0.75 else g.bool_expr(1)
                    elif t[0] == "int":
                        value = g.num_expr(ra.randint(0, 1), int_only=True)
                        if kind != "assign" and ra.random() < 0.6:
                            value = ["int", ra.randint(1, 2)]
                    elif t[0] == "real":
                        value = g.num_expr(ra.randint(0, 1))
                        if kind != "assign" and ra.random() < 0.5:
                            value = ra.choice([["int", 1], ["real", "1/2"]])
                    else:
                        try:
                            value = g.obj_expr(t[1], 1)
                        except ValueError:
                            continue
                    if t[0] in ("int", "real") and not overlaps(interval(value, world), t):
                        value = ["int", int(Fraction(t[1])) + 1] if t[1] is not None else ["int", 1]
                    # keep the model-level conflict check quiet (it is C24's subject, not C01's)
                    if cond is not None and _kleene_const(cond, world):
                        cond = None
                    if t[0] != "bool" and cond is None:
                        sym = fd["name"]
                        clash = (sym in uncond_taken or sym in incdec_taken) if kind == "assign" else (sym in uncond_taken)
                        if clash:
                            # must be a genuinely conditional effect: the model layer treats a
                            # constant-true condition as no condition
                            bf = [f for f in g.fl("bool") if all(g.can_obj(pt[1]) for _, pt in f.get("params", []))]
                            if not bf:
                                continue
                            cond = g.fluent_app(ra.choice(bf), 0)
                        elif kind == "assign":
                            uncond_taken.add(sym)
                        else:
                            incdec_taken.add(sym)
                    effects.append({"kind": kind, "fluent": target, "value": value, "cond": cond, "forall": fa})
                finally:
                    if fa:
                        g.vars.pop()
            ad = {"name": f"a{ai}", "params": params, "pre": pre, "effects": effects}
            actions.append(ad)
        # optional simulated effect on a ground fluent no other effect of that action touches
        if ra.random() < 0.25:
            ad = ra.choice(actions)
            touched = {e["fluent"][1] for e in ad["effects"]}
            cands = [f for f in fluents if f["name"] not in touched and not f["params"]]
            reads = [f for f in fluents if not f["params"] and f["type"][0] in ("bool", "int")]
            if cands:
                fd = ra.choice(cands)
                vals = values_of(fd["type"], objs, tmap)
                if vals:
                    rd = [["f", ra.choice(reads)["name"]]] if reads and ra.random() < 0.7 else []
                    table = []
                    if rd:
                        rt = next(f for f in fluents if f["name"] == rd[0][1])["type"]
                        for kv in ([True, False] if rt[0] == "bool" else [0, 1, 2, 3]):
                            table.append([[kv], [ra.choice(vals)]])
                    ad["simeff"] = {"name": "se_" + ad["name"], "fluents": [["f", fd["name"]]], "reads": rd,
                                    "table": table, "default": [ra.choice(vals)]}
        return actions

    def generate(self, seed, profile, tier):
        rw, ra, ro, rk = (stream(seed, l) for l in ("world", "actions", "ops", "knobs"))
        world = self.gen_world(rw, profile)
        world["actions"] = self.gen_actions(ra, world)
        g = ExprGen(ra, world, [], div=False, const_range=(0, 3))
        world["invariants"] = [g.bool_expr(ra.randint(0, 2)) for _ in range(ra.choice([0, 0, 1, 2]))]
        # an invariant that folds to a constant is stored as a bare constant and makes the
        # problem's kind unsupported by the simulator: out of C01's scope
        world["invariants"] = [inv for inv in world["invariants"] if not _kleene_const(inv, world)]
        world["goals"] = [g.bool_expr(ra.randint(0, 2)) for _ in range(ra.choice([1, 1, 2]))]
        rs = RefSem(world)
        s0 = rs.initial_state()
        # the initial state must satisfy bounds and invariants (get_initial_state refuses otherwise)
        world["invariants"] = [inv for inv in world["invariants"] if _holds(rs, inv, s0)]
        rs = RefSem(world)
        if not rs.state_ok(s0):
            # make it so: give every bounded fluent a value inside its bounds
            for gf in rs.ground_fluents():
                t = rs.fluents[gf[0]]["type"]
                if t[0] in ("int", "real") and (t[1] is not None or t[2] is not None):
                    v = s0.get(gf)
                    lo = Fraction(t[1]) if t[1] is not None else None
                    hi = Fraction(t[2]) if t[2] is not None else None
                    if v is None or (lo is not None and v < lo) or (hi is not None and v > hi):
                        nv = lo if lo is not None else hi
                        world["init"] = [iv for iv in world["init"] if fe_key(iv[0]) != gf]
                        world["init"].append([["f", gf[0]] + [["o", o] for o in gf[1:]], ["int", int(nv)]])
            rs = RefSem(world)
            s0 = rs.initial_state()
            world["invariants"] = [inv for inv in world["invariants"] if _holds(rs, inv, s0)]
            rs = RefSem(world)
        # ---- operations, simulated with the reference so that the pool of states is known
        states = {"s0": s0}
        ids = ["s0"]
        ops = []
        insts = [(a["name"], p) for a in world["actions"] for p in rs.ground_instances(a["name"])]
        nops = ro.randint(15, 60) * (stream(seed, "size").choice([1, 1, 1, 2, 3]) if tier == "thorough" else 1)
        asked = []
        pending_after_failure = 0
        while len(ops) < nops:
            r = ro.random()
            sid = ro.choice(ids[-5:]) if ro.random() < 0.6 else ro.choice(ids)
            if pending_after_failure > 0:
                # after an internally failing query: queries on OTHER states / actions
                pending_after_failure -= 1
                others = [x for x in ids if x != last_failed[0]] or ids
                sid = ro.choice(others)
            if asked and r < 0.25:
                op = dict(ro.choice(asked))
                op["reask"] = True
                op.pop("id", None)
                ops.append(op)
                continue
            if r < 0.65 and insts:
                an, ps = ro.choice(insts)
                kind = "apply" if ro.random() < 0.6 else "is_applicable"
                op = {"op": kind, "s": sid, "a": an, "params": list(ps)}
                if ro.random() < 0.25:
                    # the same query through another form of the API: an ActionInstance, an equal but distinct Action
                    # (clone), actual parameters as expressions instead of Objects
                    op["form"] = ro.choice(["instance", "clone", "exprs"])
                try:
                    ok, new, why = rs.successor(states[sid], an, ps)
                except Ambiguous:
                    ok, new, why = None, None, "ambiguous"
                if kind == "apply" and ok and len(ids) < 40:
                    nid = f"s{len(ids)}"
                    op["id"] = nid
                    states[nid] = new
                    ids.append(nid)
                if ok is False and why != "precondition":
                    pending_after_failure = 3
                    last_failed = (sid, an)
                ops.append(op)
                asked.append(op)
            elif r < 0.75:
                op = {"op": "applicable", "s": sid}
                if ro.random() < 0.3:
                    # the iterator is advanced `take` items, then SUSPENDED while the next `suspend_for` queries run (on
                    # other states too), then drained: two walkers sharing one simulator
                    op["take"], op["suspend_for"] = ro.randint(0, 2), ro.randint(1, 4)
                ops.append(op)
                asked.append(op)
            elif r < 0.85:
                op = {"op": ro.choice(["is_goal", "unsat_goals"]), "s": sid}
                ops.append(op)
                asked.append(op)
            elif r < 0.90:
                ops.append({"op": "hash", "s": sid})
            elif r < 0.96:
                ops.append({"op": "eq", "s": sid, "t": ro.choice(ids)})
            else:
                ops.append({"op": "read", "s": sid})
        # faults: a user-supplied interpreted function raises during ONE query (call n of that function inside the
        # query: in the grounding phase when its arguments are parameters or constants, in the evaluation otherwise);
        # the query fails, every later query must answer as if it had never been asked
        rf = stream(seed, "faults")
        if world.get("ifuns") and rf.random() < 0.5:
            cands = [o for o in ops if o["op"] in ("is_applicable", "applicable") or (o["op"] == "apply" and "id" not in o)]
            for o in rf.sample(cands, min(len(cands), rf.choice([1, 2, 3]))):
                o["fault"] = {"kind": "callback_raise", "fn": world["ifuns"][0]["name"], "nth": rf.choice([1, 1, 1, 2, 3])}
        return {"engine": self.name, "knobs": {"max_ancestors": rk.choice(KNOBS)}, "world": world, "ops": ops}

    # ----------------------------------------------------------------- execute
    def execute(self, script, ctx):
        saved = UPState.MAX_ANCESTORS
        UPState.MAX_ANCESTORS = script["knobs"]["max_ancestors"]
        try:
            return self._run(script, ctx)
        finally:
            UPState.MAX_ANCESTORS = saved

    def _run(self, script, ctx):
        world = script["world"]
        rs = RefSem(world)
        try:
            cb = Callbacks()
            W = World(world, callbacks=cb)
            problem = W.problem()
        except BuildError:
            raise
        except Exception as ex:
            # the generated world itself was refused by the model layer: not the subject of
            # C01/C02 -- the run is discarded and counted (the runner fails the batch if
            # more than 5% of the runs are discarded)
            ctx.probe("discarded-unbuildable-world:" + type(ex).__name__ + ":" + str(ex)[:70])
            ctx.ev("discarded", type(ex).__name__)
            return False
        try:
            supported = UPSequentialSimulator.supports(problem.kind)
        except Exception as ex:
            # e.g. the simplifier refusing `Exists w:Sub. (... & sup == w)` while the kind is
            # computed: a defect outside C01/C02 (the problem cannot be handed to any engine)
            ctx.probe("discarded-kind-raises:" + type(ex).__name__)
            ctx.ev("discarded", "kind-raises")
            return False
        if not supported:
            ctx.probe("discarded-unsupported-kind")
            ctx.ev("discarded", "kind")
            return False
        sim = UPSequentialSimulator(problem, error_on_failed_checks=True)
        gfs = rs.ground_fluents()
        gfe = [(gf, W.expr(["f", gf[0]] + [["o", o] for o in gf[1:]])) for gf in gfs]
        c01 = self.prop == "C01"

        def read(st):
            out = {}
            for gf, node in gfe:
                try:
                    v = st.get_value(node)
                except UPStateMissingFluentError:
                    continue
                if v.is_object_exp():
                    out[gf] = v.object().name
                elif v.is_bool_constant():
                    out[gf] = v.bool_constant_value()
                else:
                    out[gf] = Fraction(v.constant_value())
            return out

        def call(fn, *a):
            try:
                return ("ok", fn(*a))
            except Exception as ex:
                return ("exc", type(ex).__name__, str(ex)[:200])

        real = {}
        model = {}
        r0 = call(sim.get_initial_state)
        if r0[0] != "ok":
            ctx.op_index = 0
            try:
                fine = rs.state_ok(rs.initial_state())
            except Exception:
                fine = False   # e.g. an invariant with a free variable left behind by the minimiser
            if not fine:
                ctx.probe("discarded-initial-state-not-admissible")
                return False
            ctx.fail(f"{self.prop}.initial-state", f"get_initial_state raised {r0[1]}: {r0[2]} although bounds and "
                     f"invariants hold in the declared initial state", cls=r0[1])
            return False
        real["s0"] = r0[1]
        model["s0"] = rs.initial_state()
        ctx.check("C01.initial-state", read(real["s0"]) == model["s0"],
                  f"initial state {read(real['s0'])} differs from the declared one {model['s0']}")
        first_answer = {}
        internal_failure_at = None
        judged_after_failure = 0
        reasked = 0
        interesting = False

        def params_nodes(op):
            return [W.objects[o] for o in op["params"]]

        def canon(ans):
            return json.dumps(ans, sort_keys=True, default=str)

        def remember(key, ans, i):
            nonlocal reasked
            k = json.dumps(key)
            if k in first_answer:
                reasked += 1
                ctx.probe("re-asked")
                ctx.check("C02.repeatable", first_answer[k][0] == canon(ans),
                          f"op {i}: query {key} answered {canon(ans)[:200]}, but {first_answer[k][0][:200]} when first "
                          f"asked at op {first_answer[k][1]}", cls="answer-changed")
            else:
                first_answer[k] = (canon(ans), i)

        def no_raise(res, what, i):
            if res[0] == "exc":
                ctx.fail("C02.answers", f"op {i}: {what} raised {res[1]}: {res[2]}", cls=res[1])
                if c01:
                    ctx.fail("C01.answers", f"op {i}: {what} raised {res[1]}: {res[2]}", cls=res[1])
                return False
            return True

        suspended = []   # [resume_at, iterator, items so far, state id, state]

        def drain(i, only_due=True):
            for ent in list(suspended):
                if only_due and ent[0] > i:
                    continue
                suspended.remove(ent)
                _, it_, items_, sid_, st_ = ent
                rest = call(lambda: list(it_))
                if not no_raise(rest, f"resumed get_applicable_actions({sid_})", i):
                    continue
                got_ = sorted((a.name, tuple(p.object().name for p in ps)) for a, ps in items_ + rest[1])
                want_ = []
                for an in sorted(W.actions):
                    for ps in rs.ground_instances(an):
                        r2 = call(sim.apply, st_, W.actions[an], [W.objects[o] for o in ps])
                        if r2[0] == "ok" and r2[1] is not None:
                            want_.append((an, tuple(ps)))
                ctx.check("C02.applicable-set", got_ == sorted(want_),
                          f"op {i}: get_applicable_actions({sid_}), suspended after {len(items_)} items while other queries "
                          f"ran and then drained, gave {got_}; apply succeeds exactly on {sorted(want_)}",
                          cls="applicable-set-suspended")
                ctx.probe("iterator-suspended-and-drained")

        for i, op in enumerate(script["ops"]):
            ctx.op_index = i
            drain(i)
            k = op["op"]
            if op.get("s") not in real or (k == "eq" and op.get("t") not in real):
                continue
            ctx.ops += 1
            st = real[op["s"]]
            before = read(st)
            fault = op.get("fault")
            if fault and fault.get("kind") == "callback_raise" and k in ("apply", "is_applicable", "applicable"):
                # the faulted query: whatever it answers is not judged, what it leaves behind is
                ctx.faults_cfg["callback_raise"] += 1
                cb.arm(fault["fn"], fault["nth"])
                try:
                    if k == "applicable":
                        call(lambda: list(sim.get_applicable_actions(st)))
                    elif op["a"] in W.actions and all(o in W.objects for o in op["params"]) and \
                            len(op["params"]) == len(W.actions[op["a"]].parameters):
                        act_ = W.actions[op["a"]]
                        ps_ = params_nodes(op)
                        call(sim.is_applicable if k == "is_applicable" else sim.apply, st, act_, ps_)
                finally:
                    cb.disarm()
                if cb.fired:
                    ctx.faults_fired["callback_raise"] += 1
                    ctx.probe("query-failed-in-user-code")
                ctx.check("C02.state-unchanged", read(st) == before,
                          f"op {i}: a query that failed in user code changed state {op['s']}", cls="state-changed-by-failed-query")
                ctx.ev(i, k, op["s"], "faulted", cb.fired)
                ctx.outcome(k, "faulted" if cb.fired else "fault-not-reached")
                continue
            if k in ("apply", "is_applicable"):
                if op["a"] not in W.actions or any(o not in W.objects for o in op["params"]):
                    continue
                act = W.actions[op["a"]]
                # a ground instance of THIS action (a minimised script may have changed the signature or the objects)
                if len(op["params"]) != len(act.parameters) or any(
                        not W.objects[o].type.is_subtype(q.type) for o, q in zip(op["params"], act.parameters)):
                    continue
                ps = params_nodes(op)
                form = op.get("form")
                if form == "instance":
                    qargs = (ActionInstance(act, ps),)
                elif form == "clone":
                    qargs = (act.clone(), ps)
                elif form == "exprs":
                    qargs = (act, [W.em.ObjectExp(o) for o in ps])
                else:
                    qargs = (act, ps)
                if form:
                    ctx.probe("query-form:" + form)
                if k == "apply":
                    ra_ = call(sim.apply, st, *qargs)
                    ri_ = call(sim.is_applicable, st, *qargs)
                else:
                    ri_ = call(sim.is_applicable, st, *qargs)
                    ra_ = call(sim.apply, st, *qargs)
                qa = ("apply", op["s"], op["a"], op["params"])
                qi = ("is_applicable", op["s"], op["a"], op["params"])
                ok_a = no_raise(ra_, f"apply({op['s']}, {op['a']}{op['params']})", i)
                ok_i = no_raise(ri_, f"is_applicable({op['s']}, {op['a']}{op['params']})", i)
                succ = ra_[1] if ok_a else None
                applied = succ is not None
                if ok_a and ok_i:
                    ctx.check("C02.applicable-iff-apply", bool(ri_[1]) == applied,
                              f"op {i}: is_applicable({op['s']}, {op['a']}{op['params']}) = {ri_[1]} but apply returned "
                              f"{'a state' if applied else 'None'}", cls=f"is_applicable-{ri_[1]}")
                got_val = read(succ) if applied else None
                if ok_a:
                    remember(qa, None if not applied else sorted((str(k_), str(v)) for k_, v in got_val.items()), i)
                if ok_i:
                    remember(qi, bool(ri_[1]), i)
                # reference
                try:
                    ok, new, why = rs.successor(model[op["s"]], op["a"], tuple(op["params"]))
                    amb = False
                except Ambiguous as ex:
                    amb = True
                    ctx.skipped += 1
                    ctx.probe("ambiguous:" + str(ex)[:40])
                if not amb:
                    static = ok and isinstance(why, set) and "same-value-different-syntax" in why
                    if ok_a and static and not applied:
                        ctx.probe("refused:same-value-different-syntax")
                        ctx.fail("C01.applicability",
                                 f"op {i}: apply({op['s']}, {op['a']}{op['params']}) returned None although the two "
                                 f"assignments reaching one ground fluent write the SAME value through different "
                                 f"expressions; state {_show(model[op['s']])}", cls="same-value-different-syntax")
                    if ok_a:
                        ctx.check("C01.applicability", applied == ok,
                                  f"op {i}: apply({op['s']}, {op['a']}{op['params']}) "
                                  f"{'returned a state' if applied else 'returned None'}; reference semantics says "
                                  f"{'applicable' if ok else 'inapplicable (' + str(why) + ')'}; state {_show(model[op['s']])}",
                                  cls="applicable-" + str(applied))
                    if ok_i:
                        ctx.check("C01.applicability", bool(ri_[1]) == ok,
                                  f"op {i}: is_applicable({op['s']}, {op['a']}{op['params']}) = {ri_[1]}; reference "
                                  f"semantics says {'applicable' if ok else 'inapplicable (' + str(why) + ')'}",
                                  cls="is_applicable-" + str(ri_[1]))
                    if ok and applied:
                        ctx.check("C01.successor", got_val == new,
                                  f"op {i}: successor of {op['s']} by {op['a']}{op['params']} is {_show(got_val)}, "
                                  f"reference semantics gives {_show(new)}", cls="wrong-successor")
                        for p_ in why:
                            ctx.probe(p_)
                        if why & {"conditional-effect-on", "forall-effect", "accumulating-effects", "add-after-delete",
                                  "simulated-effect"}:
                            interesting = True
                    if ok is False and why != "precondition":
                        ctx.probe("refused:" + why)
                        internal_failure_at = i
                        judged_after_failure = 0
                        interesting = True
                    elif ok is False and _reads_undefined(rs, model[op["s"]], op):
                        ctx.probe("refused:undefined-read")
                        internal_failure_at = i
                        judged_after_failure = 0
                    else:
                        judged_after_failure += 1
                else:
                    # an ambiguous step may still poison later queries: count it as a failure point
                    internal_failure_at = i
                    judged_after_failure = 0
                if k == "apply" and "id" in op and applied:
                    real[op["id"]] = succ
                    model[op["id"]] = new if (not amb and ok) else got_val
                ctx.ev(i, k, op["s"], op["a"], op["params"], "->", "state" if applied else "none",
                       ri_[1] if ok_i else ri_[1])
                ctx.outcome(k, ("applied" if applied else "refused") + ("/amb" if amb else ""))
            elif k == "applicable" and op.get("suspend_for") and not op.get("fault"):
                it_ = sim.get_applicable_actions(st)
                items_ = []
                try:
                    for _ in range(op.get("take", 0)):
                        items_.append(next(it_))
                except StopIteration:
                    pass
                except Exception as ex:
                    ctx.fail("C02.answers", f"op {i}: get_applicable_actions({op['s']}) raised {type(ex).__name__}",
                             cls=type(ex).__name__)
                suspended.append([i + 1 + op["suspend_for"], it_, items_, op["s"], st])
                ctx.ev(i, "applicable-suspended", op["s"], len(items_))
                ctx.outcome(k, "suspended")
            elif k == "applicable":
                res = call(lambda: list(sim.get_applicable_actions(st)))
                if no_raise(res, f"get_applicable_actions({op['s']})", i):
                    got = sorted((a.name, tuple(p.object().name for p in ps)) for a, ps in res[1])
                    want = []
                    for an in sorted(W.actions):
                        for ps in rs.ground_instances(an):
                            r2 = call(sim.apply, st, W.actions[an], [W.objects[o] for o in ps])
                            if r2[0] == "ok" and r2[1] is not None:
                                want.append((an, tuple(ps)))
                    ctx.check("C02.applicable-set", got == sorted(want),
                              f"op {i}: get_applicable_actions({op['s']}) = {got}, apply succeeds exactly on {sorted(want)}",
                              cls="applicable-set")
                    remember(("applicable", op["s"]), got, i)
                    judged_after_failure += 1
                    ctx.ev(i, k, op["s"], len(got))
                    ctx.outcome(k, str(len(got)))
            elif k in ("is_goal", "unsat_goals"):
                rg = call(sim.is_goal, st)
                ru = call(lambda: sim.get_unsatisfied_goals(st))
                if no_raise(rg, f"is_goal({op['s']})", i):
                    if ru[0] == "ok":
                        ctx.check("C02.goal-iff", bool(rg[1]) == (len(ru[1]) == 0),
                                  f"op {i}: is_goal({op['s']}) = {rg[1]} but get_unsatisfied_goals returned {len(ru[1])} goals",
                                  cls="goal-iff")
                    elif ru[1] == "UPStateMissingFluentError":
                        ctx.check("C02.goal-iff", rg[1] is False,
                                  f"op {i}: is_goal({op['s']}) = True but get_unsatisfied_goals raised {ru[1]}", cls="goal-iff")
                    else:
                        ctx.fail("C02.answers", f"op {i}: get_unsatisfied_goals({op['s']}) raised {ru[1]}: {ru[2]}", cls=ru[1])
                    remember(("is_goal", op["s"]), bool(rg[1]), i)
                    try:
                        want = rs.is_goal(model[op["s"]])
                        ctx.check("C01.goal", bool(rg[1]) == want,
                                  f"op {i}: is_goal({op['s']}) = {rg[1]}, reference semantics says {want}; state "
                                  f"{_show(model[op['s']])}", cls="goal-" + str(rg[1]))
                    except Ambiguous as ex:
                        ctx.skipped += 1
                        ctx.probe("ambiguous:" + str(ex)[:40])
                    judged_after_failure += 1
                    ctx.ev(i, k, op["s"], rg[1])
                    ctx.outcome(k, str(rg[1]))
            elif k == "hash":
                hash(st)
                ctx.ev(i, k, op["s"])
                ctx.outcome(k, "ok")
            elif k == "eq":
                got = st == real[op["t"]]
                want = model[op["s"]] == model[op["t"]]
                ctx.check("C36.eq-iff-same-valuation", got == want, f"op {i}: {op['s']} == {op['t']} is {got}")
                ctx.ev(i, k, op["s"], op["t"], got)
                ctx.outcome(k, str(got))
            elif k == "read":
                ctx.ev(i, k, op["s"], _show(before))
                ctx.outcome(k, "ok")
            else:
                raise BuildError(f"unknown op {k}")
            # no query changes the state passed in, nor any other state
            after = read(st)
            ctx.check("C02.state-unchanged", after == before,
                      f"op {i}: {k} changed the state passed in from {_show(before)} to {_show(after)}", cls="state-changed")
            if c01:
                for sid in real:
                    if sid in model:
                        ctx.check("C01.state-valuation", read(real[sid]) == model[sid],
                                  f"after op {i}: state {sid} reads {_show(read(real[sid]))}, reference {_show(model[sid])}",
                                  cls="state-drift")
            if internal_failure_at is not None and judged_after_failure >= 3:
                ctx.probe("three-judged-after-internal-failure")
            ctx.states.add(digest(state_key(model[op["s"]])))
        ctx.op_index = len(script["ops"])
        drain(len(script["ops"]), only_due=False)
        if c01:
            return interesting and ctx.judged > 6
        return (ctx.probes.get("three-judged-after-internal-failure", 0) > 0) or reasked >= 3


def interval(e, world):
    """Interval of a numeric expression the way the type checker infers it (None = unbounded)."""
    k = e[0]
    if k in ("int", "real"):
        v = Fraction(e[1])
        return v, v
    if k == "f":
        t = next(f["type"] for f in world["fluents"] if f["name"] == e[1])
        return (None if t[1] is None else Fraction(t[1])), (None if t[2] is None else Fraction(t[2]))
    if k == "if":
        return None, None
    if k == "plus":
        lo, hi = Fraction(0), Fraction(0)
        for a in e[1:]:
            l, h = interval(a, world)
            lo = None if lo is None or l is None else lo + l
            hi = None if hi is None or h is None else hi + h
        return lo, hi
    if k == "minus":
        l1, h1 = interval(e[1], world)
        l2, h2 = interval(e[2], world)
        return (None if l1 is None or h2 is None else l1 - h2), (None if h1 is None or l2 is None else h1 - l2)
    if k == "times":
        lo, hi = Fraction(1), Fraction(1)
        for a in e[1:]:
            l, h = interval(a, world)
            if lo is None or hi is None or l is None or h is None:
                lo = hi = None
            else:
                c = [lo * l, lo * h, hi * l, hi * h]
                lo, hi = min(c), max(c)
        return lo, hi
    return None, None


def overlaps(iv, t):
    lo, hi = iv
    tl = None if t[1] is None else Fraction(t[1])
    th = None if t[2] is None else Fraction(t[2])
    if hi is not None and tl is not None and hi < tl:
        return False
    if lo is not None and th is not None and lo > th:
        return False
    return True


def _kleene_const(e, world):
    """Does the expression have a definite truth value when nothing is known about any
    fluent?  Then the library's simplifier will (most probably) fold it to a constant."""
    rs = RefSem({**world, "actions": []})
    env = {}

    class Env(dict):
        def __missing__(self, k):
            return UNDEF
    try:
        v = rs.ev(e, {}, Env(), lazy=True)
    except Exception:
        return False
    return v is not UNDEF


def _intify(e):
    """Replace real constants by integers in an int-typed value expression."""
    if isinstance(e, list):
        if e and e[0] == "real":
            return ["int", 1]
        return [_intify(x) for x in e]
    return e


def _holds(rs, inv, st):
    try:
        return rs.cond(inv, st, {})
    except Ambiguous:
        return False
    except Exception:
        return False


def _show(st):
    if st is None:
        return "None"
    return "{" + ", ".join(f"{k[0]}({','.join(k[1:])})={v}" for k, v in sorted(st.items(), key=lambda kv: str(kv[0]))) + "}"


def _reads_undefined(rs, st, op):
    ad = rs.actions[op["a"]]
    env = {pn: o for (pn, _), o in zip(ad.get("params", []), op["params"])}
    for pre in ad.get("pre", []):
        try:
            rs.ev(pre, st, env, lazy=False)
        except Exception:
            return True
    return False
