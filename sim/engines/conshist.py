"""C16 -- hash-consing and constructor normalisation under construction histories
(engine `conshist`).

Real code: ExpressionManager (create_node memo, every public constructor, auto_promote),
FNode operator overloading, TypeChecker (runs inside create_node).
Reference model: the harness's own normaliser (documented normalisations only) and a
map normal form -> first node obtained, with a snapshot of every node ever returned.
"""
import json
from collections import OrderedDict
from fractions import Fraction

from unified_planning.model import InterpretedFunction

from ..core import Engine, stream, BuildError, digest
from ..build import subtype_of, World, render
from ..gen import ExprGen, gen_types, gen_fluents
from ..inject import LineFault

NARY = {"and": "and", "or": "or", "plus": "plus", "times": "times"}
TRAJ = {"always": "Always", "sometime": "Sometime", "at_most_once": "AtMostOnce", "sometime_before": "SometimeBefore",
        "sometime_after": "SometimeAfter"}
BIN = {"implies": "implies", "iff": "iff", "eq": "equals", "le": "le", "lt": "lt", "minus": "minus", "div": "div"}
OPOV = {"+": "plus", "-": "minus", "*": "times", "/": "div", "//": "div", "<": "lt", "<=": "le", ">": "gt", ">=": "ge",
        "&": "and", "|": "or"}


def lit_value(kind, text):
    if kind == "int":
        return int(text)
    if kind == "float":
        return float(text)
    if kind == "frac":
        return Fraction(text)
    if kind == "str":
        return str(text)
    if kind == "bool":
        return bool(text)
    raise BuildError(f"bad literal kind {kind}")


def lit_nf(kind, text):
    if kind == "bool":
        return ("bool", bool(text))
    f = Fraction(str(text)) if kind != "float" else Fraction(float(text))
    if f.denominator == 1:
        return ("int", f.numerator)
    return ("real", str(f))


class Cons:
    """Builds a construction descriptor through the public constructors."""

    def __init__(self, W):
        self.W = W
        self.em = W.em

    def ifv(self, variant):
        """Interpreted functions g#0 and g#1: same name, return type and signature, callables that are two closures
        of ONE definition (so they share their code object) over different values; g#2 is a second
        InterpretedFunction object built around the very callable of g#0 (equal to it)."""
        if not hasattr(self, "_ifv"):
            tm = self.W.env.type_manager

            def make(c):
                def fn(a0):
                    return c
                return fn
            f0, f1 = make(0), make(1)
            mk = lambda fn: InterpretedFunction("g", tm.IntType(0, 5), OrderedDict(a0=tm.IntType(0, 5)), fn, self.W.env)
            self._ifv = [mk(f0), mk(f1), mk(f0)]
        return self._ifv[variant]

    def copy_out(self, how):
        """Another party copies / pickles the interpreted function g#0 and an expression over it."""
        import copy as _copy
        import pickle as _pickle
        f0 = self.ifv(0)
        node = self.em.InterpretedFunctionExp(f0, [self.em.Int(0)])
        if how == "pickle":
            _pickle.dumps(f0)
            _pickle.dumps(node.interpreted_function())
        else:
            _copy.deepcopy(f0)

    def do(self, op):
        if op.get("op") == "copy_out":
            return self.copy_out(op.get("how"))
        return self.build(op["d"])

    def arg(self, d):
        """An argument position: may be a python literal or a raw model object."""
        if d[0] == "lit":
            return lit_value(d[1], d[2])
        if d[0] == "raw":
            k = d[1]
            if k == "fluent":
                return self.W.fluents[d[2]]
            if k == "param":
                return self.W.params[d[2]]
            if k == "obj":
                return self.W.objects[d[2]]
            if k == "var":
                return self.W.variable(d[2], d[3])
            raise BuildError(d)
        return self.build(d)

    def build(self, d):
        em = self.em
        k = d[0]
        if k == "lit":
            # python literals go through auto-promotion (the explicit constructors
            # em.Int / em.Real / em.Bool are reached by the "int" / "real" / "bool" forms)
            return em.auto_promote(lit_value(d[1], d[2]))[0]
        if k == "raw":
            return em.auto_promote(self.arg(d))[0]
        if k in NARY:
            style = "unpack"
            args = d[1:]
            if args and args[-1] in ("list", "unpack", "gen"):
                style = args[-1]
                args = args[:-1]
            vals = [self.arg(a) for a in args]
            fn = {"and": em.And, "or": em.Or, "plus": em.Plus, "times": em.Times}[k]
            if style == "list":
                return fn(vals)
            if style == "gen":
                return fn(v for v in vals)
            return fn(*vals)
        if k == "not":
            return em.Not(self.arg(d[1]))
        if k == "xor":
            args = d[1:]
            style = "unpack"
            if args and args[-1] in ("list", "unpack"):
                style, args = args[-1], args[:-1]
            vals = [self.arg(a) for a in args]
            return em.XOr(vals) if style == "list" else em.XOr(*vals)
        if k in TRAJ:
            return getattr(em, TRAJ[k])(*[self.arg(a) for a in d[1:]])
        if k in BIN or k in ("ge", "gt"):
            fn = {"implies": em.Implies, "iff": em.Iff, "eq": em.Equals, "le": em.LE, "lt": em.LT, "ge": em.GE,
                  "gt": em.GT, "minus": em.Minus, "div": em.Div}[k]
            return fn(self.arg(d[1]), self.arg(d[2]))
        if k == "eqiff":
            return em.EqualsOrIff(self.arg(d[1]), self.arg(d[2]))
        if k == "opov":
            a = self.build(d[2])
            b = self.arg(d[3])
            o = d[1]
            if o == "+":
                return a + b
            if o == "-":
                return a - b
            if o == "*":
                return a * b
            if o == "/":
                return a / b
            if o == "//":
                return a // b
            if o == "<":
                return a < b
            if o == "<=":
                return a <= b
            if o == ">":
                return a > b
            if o == ">=":
                return a >= b
            if o == "&":
                return a & b
            if o == "|":
                return a | b
            raise BuildError(d)
        if k == "ropov":  # literal on the left: 2 + x
            b = self.build(d[3])
            a = self.arg(d[2])
            o = d[1]
            if o == "+":
                return a + b
            if o == "-":
                return a - b
            if o == "*":
                return a * b
            if o == "/":
                return a / b
            raise BuildError(d)
        if k == "neg":
            return -self.build(d[1])
        if k == "pos":
            return +self.build(d[1])
        if k == "inv":
            return ~self.build(d[1])
        if k == "meth":  # FNode methods
            a = self.build(d[2])
            m = d[1]
            if m == "Not":
                return a.Not()
            b = self.arg(d[3])
            return getattr(a, m)(b)
        if k in ("exists", "forall"):
            vs = [self.W.variable(n, t) for n, t in d[1]]
            body = self.arg(d[2])
            return (em.Exists if k == "exists" else em.Forall)(body, *vs)
        if k == "f":
            return em.FluentExp(self.W.fluents[d[1]], [self.arg(a) for a in d[2:]])
        if k == "fcall":  # Fluent.__call__
            return self.W.fluents[d[1]](*[self.arg(a) for a in d[2:]])
        if k in ("p", "v", "o", "int", "real", "bool"):
            return self.W.expr(d)
        if k == "ifv":
            if d[1] not in (0, 1, 2):
                raise BuildError(d)
            return em.InterpretedFunctionExp(self.ifv(d[1]), [self.arg(d[2])])
        raise BuildError(f"unknown construction {d!r}")


def nf(d, world, ordered=False):
    """Normal form of a construction descriptor, in the format of build.render
    (ordered=True keeps the order of quantified variables: the identity key)."""
    rec = lambda x: nf(x, world, ordered)
    k = d[0]
    if k == "lit":
        return lit_nf(d[1], d[2])
    if k == "raw":
        if d[1] == "fluent":
            return ("f", d[2])
        if d[1] == "param":
            t = next(pt for n, pt in world["params"] if n == d[2])
            return ("p", d[2], _rt(t))
        if d[1] == "obj":
            return ("o", d[2])
        if d[1] == "var":
            return ("v", d[2], _rt(d[3]))
        raise BuildError(d)
    if k in NARY:
        args = [a for a in d[1:] if a not in ("list", "unpack", "gen")]
        n = [rec(a) for a in args]
        if len(n) == 0:
            return {"and": ("bool", True), "or": ("bool", False), "plus": ("int", 0), "times": ("int", 1)}[k]
        if len(n) == 1:
            return n[0]
        return (k,) + tuple(n)
    if k in ("not", "inv"):
        a = rec(d[1])
        return a[1] if a[0] == "not" else ("not", a)
    if k == "xor":
        # documented: "an exclusive disjunction of terms in CNF form": Or over i of And(a_i, Not(o) for the OTHER terms);
        # the other terms are told apart by node identity, i.e. by normal form
        args = [a for a in d[1:] if a not in ("list", "unpack")]
        if not args:
            return ("bool", False)
        if len(args) == 1:
            return rec(args[0])
        nfs = [rec(a) for a in args]
        terms = []
        for i, a in enumerate(args):
            others = [o for o, no in zip(args, nfs) if no != nfs[i]]
            terms.append(["and", a] + [["not", o] for o in others])
        return rec(["or"] + terms)
    if k in TRAJ:
        return (k,) + tuple(rec(a) for a in d[1:])
    if k in BIN:
        return (BIN[k], rec(d[1]), rec(d[2]))
    if k == "ge":
        return ("le", rec(d[2]), rec(d[1]))
    if k == "gt":
        return ("lt", rec(d[2]), rec(d[1]))
    if k == "opov":
        o = OPOV[d[1]]
        a, b = rec(d[2]), rec(d[3])
        if o == "ge":
            return ("le", b, a)
        if o == "gt":
            return ("lt", b, a)
        return (o, a, b)
    if k == "ropov":
        return (OPOV[d[1]], rec(d[2]), rec(d[3]))
    if k == "neg":
        return ("minus", ("int", 0), rec(d[1]))
    if k == "pos":
        return ("plus", ("int", 0), rec(d[1]))
    if k == "meth":
        m = d[1]
        a = rec(d[2])
        if m == "Not":
            return a[1] if a[0] == "not" else ("not", a)
        return ({"And": "and", "Or": "or", "Implies": "implies", "Iff": "iff", "Equals": "equals"}[m], a, rec(d[3]))
    if k in ("exists", "forall"):
        vs = tuple((n, _rt(t)) for n, t in d[1])
        if not ordered:
            vs = tuple(sorted(vs))  # build.render sorts the variables
        return (k, vs, rec(d[2]))
    if k in ("f", "fcall"):
        return ("f", d[1]) + tuple(rec(a) for a in d[2:])
    if k == "p":
        t = next(pt for n, pt in world["params"] if n == d[1])
        return ("p", d[1], _rt(t))
    if k == "v":
        return ("v", d[1], _rt(d[2]))
    if k == "o":
        return ("o", d[1])
    if k == "int":
        return ("int", d[1])
    if k == "real":
        return ("real", str(Fraction(d[1])))
    if k == "bool":
        return ("bool", d[1])
    if k == "ifv":
        return ("ifv", "g", 1 if d[1] == 1 else 0, rec(d[2]))
    raise BuildError(f"no normal form for {d!r}")


def nf_kind(n, world):
    """Kind of a normal form under the harness's own typing rules: ("bool",), ("num",), ("obj", type name) --
    or None when the expression is ill-typed OR the rules cannot tell.  Used to decide from the DATA (not from the
    generator's flag, which a minimised script no longer deserves) whether a construction has to succeed."""
    k = n[0]
    if k == "bool":
        return ("bool",)
    if k in ("int", "real"):
        return ("num",)
    if k == "o":
        t = next((ot for o, ot in world["objects"] if o == n[1]), None)
        return None if t is None else ("obj", t)
    if k in ("p", "v"):
        rt = n[2]
        return ("bool",) if rt[0] == "bool" else ("num",) if rt[0] in ("int", "real") else ("obj", rt[1])
    if k == "ifv":
        return ("num",) if nf_kind(n[3], world) == ("num",) else None
    sub = [nf_kind(a, world) for a in n[1:]] if k not in ("exists", "forall", "f") else None
    if k in ("and", "or", "not", "implies", "iff") or k in TRAJ:
        return ("bool",) if sub and all(x == ("bool",) for x in sub) else None
    if k in ("le", "lt"):
        return ("bool",) if len(sub) == 2 and all(x == ("num",) for x in sub) else None
    if k in ("plus", "times", "minus", "div"):
        if not sub or any(x != ("num",) for x in sub):
            return None
        if k == "div" and n[2][0] in ("int", "real") and Fraction(n[2][1]) == 0:
            return None
        return ("num",)
    if k == "equals":
        if len(sub) != 2 or None in sub:
            return None
        a, b = sub
        if a == ("num",) and b == ("num",):
            return ("bool",)
        if a[0] == "obj" and b[0] == "obj":
            tmap = dict(world["types"])
            return ("bool",) if subtype_of(tmap, a[1], b[1]) or subtype_of(tmap, b[1], a[1]) else None
        return None
    if k in ("exists", "forall"):
        return ("bool",) if n[1] and nf_kind(n[2], world) == ("bool",) else None
    if k == "f":
        fd = next((f for f in world["fluents"] if f["name"] == n[1]), None)
        if fd is None or len(fd["params"]) != len(n) - 2:
            return None
        tmap = dict(world["types"])
        for (_, pt), a in zip(fd["params"], n[2:]):
            ka = nf_kind(a, world)
            if ka is None:
                return None
            if pt[0] == "user":
                if ka[0] != "obj" or not subtype_of(tmap, ka[1], pt[1]):
                    return None
            elif pt[0] == "bool":
                if ka != ("bool",):
                    return None
            elif ka != ("num",):
                return None
        t = fd["type"]
        return ("bool",) if t[0] == "bool" else ("num",) if t[0] in ("int", "real") else ("obj", t[1])
    return None


def negations_typed(d, world):
    """nf() folds a double negation away, operand included: the operand of every negation in the raw
    descriptor must be Boolean on its own."""
    if not isinstance(d, list) or not d or not isinstance(d[0], str):
        return True
    operand = d[1] if d[0] in ("not", "inv") else d[2] if d[0] == "meth" and d[1] == "Not" else None
    if operand is not None and isinstance(operand, list):
        try:
            if nf_kind(nf(operand, world, ordered=True), world) != ("bool",):
                return False
        except Exception:
            return False
    return all(negations_typed(c, world) for c in d[1:] if isinstance(c, list))


def payload_repr(n):
    """The payload as far as it can be observed: for an interpreted function also the identity of its callable."""
    pl = n._content.payload
    r = repr(pl)
    if n.is_interpreted_function_exp():
        r += "#" + str(id(pl.function)) if pl.function is not None else "#no-callable"
    return r


def _unv(x):
    """What build.render shows of a normal form: the two interpreted functions called g are both rendered `g`."""
    if isinstance(x, tuple):
        if x and x[0] == "ifv":
            return ("if", x[1]) + tuple(_unv(a) for a in x[3:])
        return tuple(_unv(a) for a in x)
    return x


def ordered_key(d, world):
    return nf(d, world, ordered=True)


def has_normcase(d):
    """Does building d exercise one of the documented normalisations?"""
    k = d[0]
    if k in NARY:
        args = [a for a in d[1:] if a not in ("list", "unpack", "gen")]
        if len(args) < 2:
            return True
    if k in ("ge", "gt", "neg", "pos", "raw"):
        return True
    if k == "opov" and d[1] in (">", ">="):
        return True
    if k == "lit" and d[1] in ("float", "str", "frac"):
        return True
    if k in ("not", "inv") and d[1][0] in ("not", "inv"):
        return True
    if k == "meth" and d[1] == "Not" and d[2][0] in ("not", "inv"):
        return True
    return any(has_normcase(x) for x in d[1:] if isinstance(x, list) and x and isinstance(x[0], str))


def _rt(t):
    if t[0] == "bool":
        return ("bool",)
    if t[0] in ("int", "real"):
        return (t[0], str(None if t[1] is None else Fraction(t[1])), str(None if t[2] is None else Fraction(t[2])))
    return ("user", t[1])


def _tj(x):
    if isinstance(x, (list, tuple)):
        return tuple(_tj(y) for y in x)
    return x


class ConsHist(Engine):
    name = "conshist"
    props = ("C16",)
    nruns = {"quick": 8000, "thorough": 400000}
    budgets = {"quick": 25.0, "thorough": 480.0}
    rule = (
        "script = 30-150 constructions through every public constructor of one ExpressionManager (And/Or/Not/Implies/"
        "Iff/Exists/Forall/Equals/LE/GE/LT/GT/Plus/Minus/Times/Div/FluentExp/ParameterExp/VariableExp/ObjectExp/Int/"
        "Real/Bool, auto-promotion of python literals and model objects, FNode operator overloading and methods), >= 40% "
        "repetitions of earlier descriptors spelled differently (list vs unpacked arguments, in 30% of the scripts n-ary constructions with 5-16 operands built twice with different spellings of their literals, GE vs mirrored LE, 1-ary "
        "And, double negation, 2 vs 2.0 vs '2' vs '2.0' vs '4/2' vs Fraction(2)), XOr and the trajectory operators, quantifiers with "
        "repeated variables, a bystander that pickles / deep-copies an interpreted function in use, two interpreted functions that "
        "differ only in their callable, ~10% ill-typed constructions, and (async profile) "
        "MemoryError injected at a line event of one construction. non-trivial = >= 10 repeated normal forms AND >= 1 "
        "normalisation case AND (async profile) a fired fault followed by >= 5 judged constructions; distinct = digest of "
        "(constructor kind, outcome class) sequence. Thorough tier: for async scripts every line-event position of the "
        "faulted construction is tried (<= 400 per script)"
    )
    real_components = ("ExpressionManager (create_node, constructors, auto_promote)", "FNode operators", "TypeChecker")
    stub_components = ()
    assumptions = (
        "constructs whose normal form the documentation leaves open are not generated (Int(True), floats that are not "
        "dyadic rationals)",
    )

    def profiles(self, tier):
        return ["plain", "async", "plain", "reject"]

    def generate(self, seed, profile, tier):
        rw, ro, rf = stream(seed, "world"), stream(seed, "ops"), stream(seed, "faults")
        types, objs = gen_types(rw)
        tnames = [t for t, _ in types]
        fluents = gen_fluents(rw, types, rw.randint(3, 5))
        fluents[0]["type"] = ["bool"]
        fluents[0]["params"] = []
        fluents[1]["type"] = ["int", 0, 5]
        fluents[1]["params"] = []
        params = [["p0", ["user", "T"]], ["p1", ["user", rw.choice(tnames)]]]
        world = {"types": types, "objects": objs, "fluents": fluents, "params": params}
        g = ExprGen(ro, world, [(n, t) for n, t in params], ifuns=False)
        pool = []  # (kind, cons descriptor)

        def variant(kind, e, depth=0):
            """Re-spell a plain expression descriptor through other constructors, same normal form."""
            r = ro.random()
            k = e[0]
            if k in ("and", "or", "plus", "times") and len(e) == 3:
                sub = [variant(None, x, depth + 1) for x in e[1:]]
                c = ro.choice(["list", "unpack", "gen", "opov", "meth"])
                if c == "opov" and sub[0][0] not in ("lit", "raw"):
                    return ["opov", {"and": "&", "or": "|", "plus": "+", "times": "*"}[k], sub[0], sub[1]]
                if c == "meth" and k in ("and", "or") and sub[0][0] not in ("lit", "raw"):
                    return ["meth", "And" if k == "and" else "Or", sub[0], sub[1]]
                return [k] + sub + [c if c in ("list", "unpack", "gen") else "unpack"]
            if k in ("and", "or", "plus", "times"):
                return [k] + [variant(None, x, depth + 1) for x in e[1:]] + [ro.choice(["list", "unpack", "gen"])]
            if k == "not":
                inner = variant(None, e[1], depth + 1)
                c = ro.choice(["not", "inv", "meth", "triple"])
                if c == "inv" and inner[0] not in ("lit", "raw"):
                    return ["inv", inner]
                if c == "meth" and inner[0] not in ("lit", "raw"):
                    return ["meth", "Not", inner]
                if c == "triple":
                    return ["not", ["not", ["not", inner]]]
                return ["not", inner]
            if k in ("le", "lt"):
                a, b = variant(None, e[1], depth + 1), variant(None, e[2], depth + 1)
                c = ro.choice(["plain", "mirror", "opov", "ropov"])
                if c == "mirror":
                    return ["ge" if k == "le" else "gt", b, a]
                if c == "opov" and a[0] not in ("lit", "raw"):
                    return ["opov", "<=" if k == "le" else "<", a, b]
                if c == "ropov" and b[0] not in ("lit", "raw"):
                    return ["opov", ">=" if k == "le" else ">", b, a]
                return [k, a, b]
            if k in ("ge", "gt"):
                a, b = variant(None, e[1], depth + 1), variant(None, e[2], depth + 1)
                return ["le" if k == "ge" else "lt", b, a] if ro.random() < 0.5 else [k, a, b]
            if k in ("minus", "div"):
                a, b = variant(None, e[1], depth + 1), variant(None, e[2], depth + 1)
                if ro.random() < 0.4 and a[0] not in ("lit", "raw"):
                    return ["opov", "-" if k == "minus" else ro.choice(["/", "//"]), a, b]
                return [k, a, b]
            if k in ("implies", "iff", "eq"):
                a, b = variant(None, e[1], depth + 1), variant(None, e[2], depth + 1)
                if ro.random() < 0.4 and a[0] not in ("lit", "raw"):
                    return ["meth", {"implies": "Implies", "iff": "Iff", "eq": "Equals"}[k], a, b]
                return [k, a, b]
            if k in ("exists", "forall"):
                return [k, e[1], variant(None, e[2], depth + 1)]
            if k == "f":
                fd = next(f for f in fluents if f["name"] == e[1])
                args = [variant(None, x, depth + 1) for x in e[2:]]
                if not args and depth > 0 and ro.random() < 0.4:
                    return ["raw", "fluent", e[1]]
                return [ro.choice(["f", "fcall"]), e[1]] + args
            if k == "int" and depth > 0:
                n = e[1]
                return ro.choice([["lit", "int", n], ["lit", "float", f"{n}.0"], ["lit", "str", str(n)],
                                  ["lit", "frac", f"{n}/1"], ["int", n],
                                  # an integral value written as a decimal, a ratio or with an exponent is still Int n
                                  ["lit", "str", f"{n}.0"], ["lit", "str", f"{2 * n}/2"], ["lit", "str", f"{n}e0"]])
            if k == "int":
                return ro.choice([["lit", "int", e[1]], ["int", e[1]], ["lit", "float", f"{e[1]}.0"], ["lit", "str", str(e[1])],
                                  ["lit", "str", f"{e[1]}.0"], ["lit", "str", f"{3 * e[1]}/3"]])
            if k == "real":
                fr = Fraction(e[1])
                opts = [["real", e[1]], ["lit", "frac", e[1]], ["lit", "str", e[1]]]
                if fr.denominator in (2, 4):
                    opts.append(["lit", "float", repr(float(fr))])
                    opts.append(["lit", "str", repr(float(fr))])
                return ro.choice(opts)
            if k == "bool":
                return ro.choice([["bool", e[1]], ["lit", "bool", e[1]]]) if depth > 0 else ["lit", "bool", e[1]]
            if k == "p" and depth > 0 and ro.random() < 0.4:
                return ["raw", "param", e[1]]
            if k == "o" and depth > 0 and ro.random() < 0.4:
                return ["raw", "obj", e[1]]
            if k == "v" and depth > 0 and ro.random() < 0.4:
                return ["raw", "var", e[1], e[2]]
            return e

        plain = []
        for i in range(ro.randint(8, 16)):
            if ro.random() < 0.6:
                plain.append(g.bool_expr(ro.randint(1, 3)))
            else:
                plain.append(g.num_expr(ro.randint(1, 2)))
        # quantifiers over two variables, in both orders (different nodes)
        uts = [t for t in g.user_types() if g.can_obj(t)]
        for i in range(ro.randint(0, 2)):
            t1, t2 = ro.choice(uts), ro.choice(uts)
            g.vars += [("w1", ["user", t1]), ("w2", ["user", t2])]
            body = g.bool_expr(ro.randint(1, 2))
            del g.vars[-2:]
            q = ro.choice(["exists", "forall"])
            plain.append([q, [["w1", ["user", t1]], ["w2", ["user", t2]]], body])
            plain.append([q, [["w2", ["user", t2]], ["w1", ["user", t1]]], body])
            if ro.random() < 0.5:
                # no normalisation of the variable list is documented: a repeated variable is kept
                w1, w2 = ["w1", ["user", t1]], ["w2", ["user", t2]]
                plain.append([q, [w1], body])
                plain.append([q, ro.choice([[w1, w1], [w1, w2, w1], [w2, w1, w1]]), body])
        # two interpreted functions that differ only in their callable are different payloads
        want_pickle = False
        if ro.random() < 0.5:
            arg = ro.choice([["f", fluents[1]["name"]], ["int", ro.randint(0, 5)]])
            for v_ in ro.sample([0, 1, 2, 0, 1], 4):
                plain.append(["ifv", v_, arg])
            b_ = ["int", ro.randint(0, 5)]
            plain.append(["le", ["ifv", 0, arg], b_])
            plain.append(["le", ["ifv", 1, arg], b_])
            want_pickle = True
        # sharing
        for i in range(ro.randint(2, 6)):
            a, b = ro.choice(plain), ro.choice(plain)
            ka, kb = _kind(a, world), _kind(b, world)
            if ka == "bool" and kb == "bool":
                plain.append([ro.choice(["and", "or", "implies", "iff"]), a, b])
            elif ka == "num" and kb == "num":
                plain.append([ro.choice(["plus", "le", "minus", "times", "lt", "eq"]), a, b])
            elif ka == "bool":
                plain.append(["not", a])
            elif ka == "num":
                plain.append(["neg", a])
        pb = [p for p in plain if _kind(p, world) == "bool"] or [["bool", True]]
        pn = [p for p in plain if _kind(p, world) == "num"] or [["int", 1]]
        special = [["and"], ["or"], ["plus"], ["times"], ["and", "list"], ["plus", "gen"],
                   ["not", ["not", ro.choice(pb)]]]
        # an explicit Real constant with an integral value is a REAL constant: structurally different
        # from the Int constant of the same value, hence a different node (both orders occur)
        for n_ in ro.sample(range(-2, 6), 3):
            special.append(["real", str(n_)])
            special.append(["int", n_])
            special.append(["le", ["real", str(n_)], ro.choice(pn)])
        # XOr (documented expansion) and the trajectory operators
        xa, xb, xc = ro.choice(pb), ro.choice(pb), ro.choice(pb)
        special += [["xor"], ["xor", xa], ["xor", xa, xb, ro.choice(["list", "unpack"])], ["xor", xa, xb, xc], ["xor", xa, xa],
                    ["xor", xb, xa]]
        special += [[t_, ro.choice(pb)] for t_ in ("always", "sometime", "at_most_once")]
        special += [[t_, ro.choice(pb), ro.choice(pb)] for t_ in ("sometime_before", "sometime_after")]
        for k_ in ("and", "or"):
            special.append([k_, ro.choice(pb), ro.choice(["list", "unpack", "gen"])])
        for k_ in ("plus", "times"):
            special.append([k_, ro.choice(pn), ro.choice(["list", "unpack", "gen"])])
        illtyped = [["and", ["int", 1], ["bool", True]], ["plus", ["bool", True], ["int", 1]], ["not", ["int", 3]],
                    ["eq", ["bool", True], ["bool", False]], ["le", ["o", objs[0][0]], ["int", 1]],
                    ["f", fluents[1]["name"], ["int", 1]], ["div", ["int", 1], ["int", 0]],
                    ["xor", ro.choice(pb), ro.choice(pb), ["int", 3]], ["xor", ["int", 1], ro.choice(pb)],
                    ["always", ["int", 2]]]
        nops = ro.randint(30, 150) if tier == "thorough" else ro.randint(30, 90)
        ops = []
        rej = 0.1 if profile != "reject" else 0.3
        for i in range(nops):
            r = ro.random()
            if r < rej:
                ops.append({"op": "cons", "d": ro.choice(illtyped), "ill": True})
            elif r < rej + 0.14:
                ops.append({"op": "cons", "d": ro.choice(special)})
            else:
                e = ro.choice(plain)
                if e[0] == "neg":
                    d = ["neg", variant(None, e[1], 1)] if ro.random() < 0.5 else ["minus", ["lit", "int", 0], variant(None, e[1], 1)]
                else:
                    d = variant(None, e) if ro.random() < 0.7 else e
                ops.append({"op": "cons", "d": d})
        # round 8 (scale): WIDE n-ary constructions, 5-16 operands given unpacked, as a list or as a generator, some of
        # them python literals in their various spellings; the same operands again with other spellings must give the
        # identical node.  A stream of its own: the other runs are what they were.
        rwide = stream(seed, "wide")
        if rwide.random() < 0.3:
            for _ in range(rwide.randint(1, 3)):
                k_ = rwide.choice(["plus", "times", "plus", "and", "or"])
                n_ = rwide.randint(5, 16)
                if k_ in ("and", "or"):
                    base = [rwide.choice(pb) for _ in range(n_)]
                    twins = [base, base]
                else:
                    base, other = [], []
                    for _ in range(n_):
                        if rwide.random() < 0.25:
                            v = rwide.randint(2, 30)
                            sp = [["lit", "int", v], ["lit", "str", str(v)], ["int", v], ["lit", "float", f"{v}.0"],
                                  ["lit", "str", f"{v}.0"]]
                            base.append(rwide.choice(sp))
                            other.append(rwide.choice(sp))
                        else:
                            e_ = rwide.choice(pn)
                            base.append(e_)
                            other.append(e_)
                    twins = [base, other]
                for ops_ in twins:
                    ops.insert(rwide.randrange(len(ops) + 1),
                               {"op": "cons", "d": [k_] + ops_ + [rwide.choice(["unpack", "unpack", "list", "gen"])]})
        if want_pickle:
            # another party copies / pickles what the environment holds (the parallel engines do): nothing an existing
            # node is made of may change because of it
            for _ in range(ro.randint(1, 3)):
                ops.insert(ro.randrange(len(ops) + 1), {"op": "copy_out", "how": ro.choice(["pickle", "deepcopy"])})
        if profile == "async":
            for _ in range(rf.choice([1, 2])):
                pos = rf.randint(1, max(1, len(ops) - 8))
                if "d" in ops[pos] and not ops[pos].get("ill"):
                    ops[pos]["fault"] = {"kind": "async_mem", "frac": round(rf.random(), 4)}
        return {"engine": self.name, "world": world, "ops": ops}

    def expand(self, script, tier):
        """Thorough tier: for scripts of the async profile, EVERY line-event position of the first
        faulted construction is tried (one execution of the whole history per position, at most 400)."""
        if tier != "thorough":
            return None
        ops = script["ops"]
        idx = [i for i, op in enumerate(ops) if op.get("fault") and "d" in op]
        if not idx:
            return None
        i = idx[0]
        base = json.loads(json.dumps(script))
        for j in idx[1:]:
            del base["ops"][j]["fault"]
        W2 = World(script["world"])
        C2 = Cons(W2)
        for op in ops[:i]:
            try:
                C2.do(op)
            except Exception:
                pass
        with LineFault(at=None) as lf:
            try:
                C2.build(ops[i]["d"])
            except Exception:
                pass
        n = lf.count
        positions = list(range(1, n + 1)) if n <= 400 else sorted({1 + (k * n) // 400 for k in range(400)})
        out = []
        for v, at in enumerate(positions):
            sc = dict(base)                      # shares everything but the faulted operation
            sc["ops"] = list(base["ops"])
            sc["ops"][i] = dict(base["ops"][i], fault={"kind": "async_mem", "at": at})
            sc["variant"] = v
            out.append(sc)
        return out or None

    def execute(self, script, ctx):
        world = script["world"]
        W = World(world)
        C = Cons(W)
        by_nf = {}      # ordered normal form -> node
        snaps = {}      # id(node) -> (node, node_id, node_type, arg identities, payload repr)
        repeats = 0
        normcases = 0
        fired_at = None
        judged_after_fault = 0
        ops = script["ops"]

        def count_events(i):
            W2 = World(world)
            C2 = Cons(W2)
            for op in ops[:i]:
                try:
                    C2.do(op)
                except BuildError:
                    raise
                except Exception:
                    pass
            with LineFault(at=None) as lf:
                try:
                    C2.build(ops[i]["d"])
                except Exception:
                    pass
            return lf.count

        for i, op in enumerate(ops):
            ctx.op_index = i
            ctx.ops += 1
            if op.get("op") == "copy_out":
                try:
                    C.copy_out(op.get("how"))
                    ctx.probe("copied-out:" + str(op.get("how")))
                except Exception as ex:
                    ctx.ev(i, "copy_out", type(ex).__name__)
                # (the invariants over every node ever returned are checked below, as after every operation)
                for sid, (n, nid, nt, argids, pl) in snaps.items():
                    ok = (n.node_id == nid and n.node_type == nt and tuple(id(a) for a in n.args) == argids
                          and payload_repr(n) == pl)
                    ctx.check("C16.immutable", ok, f"after op {i} (copy_out): node {nid} changed operator, children or payload",
                              cls="mutated")
                continue
            if "d" not in op:
                continue
            d = op["d"]
            try:
                key = ordered_key(d, world)
                want = nf(d, world)
            except BuildError:
                ctx.ev(i, "skipped-unbuildable")
                continue
            fault = op.get("fault")
            lf = None
            node, exc = None, None
            try:
                if fault:
                    ctx.faults_cfg["async_mem"] += 1
                    at = fault.get("at")
                    if at is None:
                        at = 1 + int(fault["frac"] * count_events(i))
                    lf = LineFault(at=at)
                    lf.__enter__()
                node = C.build(d)
            except BuildError:
                if lf:
                    lf.__exit__()
                ctx.ev(i, "skipped-unbuildable")
                continue
            except Exception as ex:
                exc = type(ex).__name__
            finally:
                if lf:
                    lf.__exit__()
            fired = bool(lf and lf.fired)
            if fired:
                ctx.faults_fired["async_mem"] += 1
                fired_at = i
                judged_after_fault = 0
                ctx.probe("async-in:" + lf.where[0])
            ctx.ev(i, d[0], digest(d), "->", exc or "ok", "fired" if fired else "")
            ctx.outcome(d[0], exc or "ok")
            if exc is not None:
                try:
                    typed = nf_kind(nf(d, world, ordered=True), world) is not None and negations_typed(d, world)
                except Exception:
                    typed = False
                if not op.get("ill") and not typed:
                    # a script edited by the minimiser: the flag says well-typed, the data do not
                    ctx.probe("flagged-well-typed-but-not-derivable")
                if not op.get("ill") and not fired and typed:
                    # a well-typed construction must not fail on its own
                    ctx.fail("C16.constructs", f"op {i}: construction {json.dumps(d)[:300]} raised {exc}", cls=exc)
                else:
                    ctx.probe("rejected-construction" if op.get("ill") else "faulted-construction")
            else:
                if op.get("ill"):
                    ctx.probe("illtyped-accepted")
                got = _tj(render(node, sort_vars=False))
                want = _unv(key)
                if not op.get("ill"):
                    ctx.check("C16.normal-form", got == _tj(want),
                              f"op {i}: {json.dumps(d)[:300]} built {got}, documented normal form is {_tj(want)}",
                              cls="wrong-normal-form")
                    if has_normcase(d):
                        normcases += 1
                        ctx.probe("normalisation-case")
                prev = by_nf.get(key)
                if prev is not None:
                    repeats += 1
                    ctx.check("C16.same-node", prev is node,
                              f"op {i}: {json.dumps(d)[:300]} was built before as node {prev.node_id} and now as a "
                              f"different object {node.node_id}", cls="not-shared")
                else:
                    for k2, n2 in by_nf.items():
                        if n2 is node:
                            ctx.fail("C16.distinct-nodes",
                                     f"op {i}: {json.dumps(d)[:200]} with normal form {key} returned the node first "
                                     f"obtained for the different normal form {k2}", cls="aliased")
                    by_nf[key] = node
                self._snap_all(node, snaps)
                if fired_at is not None and not fired:
                    judged_after_fault += 1
            # invariants over every node ever returned
            ids = {}
            for sid, (n, nid, nt, argids, pl) in snaps.items():
                ok = (n.node_id == nid and n.node_type == nt and tuple(id(a) for a in n.args) == argids
                      and payload_repr(n) == pl)
                ctx.check("C16.immutable", ok, f"after op {i}: node {nid} changed operator, children or payload",
                          cls="mutated")
                if nid in ids and ids[nid] is not n:
                    ctx.fail("C16.distinct-ids", f"after op {i}: two different nodes share id {nid}", cls="dup-id")
                ids[nid] = n
        ctx.states.add(digest(sorted(str(k) for k in by_nf)))
        nt = repeats >= 10 and normcases >= 1
        if script.get("profile") == "async":
            nt = nt and fired_at is not None and judged_after_fault >= 5
        return nt

    @staticmethod
    def _snap_all(node, snaps):
        stack = [node]
        while stack:
            n = stack.pop()
            if id(n) in snaps:
                continue
            snaps[id(n)] = (n, n.node_id, n.node_type, tuple(id(a) for a in n.args), payload_repr(n))
            stack.extend(n.args)


def _kind(e, world=None):
    k = e[0]
    if k == "f" and world is not None:
        t = next(f["type"] for f in world["fluents"] if f["name"] == e[1])
        return "bool" if t[0] == "bool" else ("num" if t[0] in ("int", "real") else "obj")
    if k in ("and", "or", "not", "implies", "iff", "eq", "le", "lt", "ge", "gt", "exists", "forall", "bool", "xor"):
        return "bool"
    if k in ("plus", "minus", "times", "div", "int", "real", "neg", "ifv"):
        return "num"
    return "other"
