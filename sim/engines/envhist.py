"""C14 -- shared environment walkers under a call history with failures (engine `envhist`).

Real code: Environment and all its singletons (ExpressionManager, TypeChecker, Simplifier,
Substituter, FreeVarsExtractor, FreeVarsOracle, NamesExtractor,
InterpretedFunctionsExtractor), a long-lived Simplifier(env, problem) and
ExpressionQuantifiersRemover, FNode, Problem.
Stubs: interpreted-function callables (table look-ups decided by the script).
Reference: the same call rebuilt from descriptors in a brand-new Environment.
"""
import json

from ..core import Engine, stream, BuildError, digest, SimCancel
from ..build import World, render, render_type
from ..gen import ExprGen, gen_types, gen_fluents, values_of, subtype_of
from ..inject import LineFault, Callbacks

from unified_planning.model import Problem, InstantaneousAction
from unified_planning.model.walkers import Simplifier, ExpressionQuantifiersRemover

WORK_OPS = ("simplify", "psimplify", "subst", "rmq", "build")
_REF_CACHE = {}


def subterms(e, out=None):
    out = set() if out is None else out
    if isinstance(e, list) and e and isinstance(e[0], str):
        if e[0] not in ("o", "p", "v", "int", "real", "bool"):
            out.add(json.dumps(e))
        for c in e[1:]:
            if isinstance(c, list):
                if c and isinstance(c[0], str):
                    subterms(c, out)
                elif e[0] in ("exists", "forall"):
                    pass
    return out


class EnvState:
    """One Environment with its long-lived helpers."""

    def __init__(self, world, callbacks=None):
        self.W = World(world, callbacks=callbacks)
        W = self.W
        p = Problem("p", W.env)
        for fd in world["fluents"]:
            p.add_fluent(W.fluents[fd["name"]])
        for o in W.objects.values():
            p.add_object(o)
        for fe, v in world.get("init", []):
            p.set_initial_value(W.expr(fe), W.expr(v))
        dyn = world.get("dynamic", [])
        if dyn:
            a = InstantaneousAction("touch", _env=W.env)
            for fe, v in dyn:
                a.add_effect(W.expr(fe), W.expr(v))
            p.add_action(a)
        self.problem = p
        # a second objects set for quantifier removal: every other object (the objects set is an ARGUMENT of the call)
        p2 = Problem("p2", W.env)
        for i, o in enumerate(W.objects.values()):
            if i % 2 == 0:
                p2.add_object(o)
        self.problem2 = p2
        # ... and a third one with the OTHER objects: the same number of objects as the second whenever the world has an
        # even number of them (a remover that tells objects sets apart by their size cannot tell these two apart)
        p3 = Problem("p3", W.env)
        for i, o in enumerate(W.objects.values()):
            if i % 2 == 1:
                p3.add_object(o)
        self.problem3 = p3
        self.psimp = Simplifier(W.env, p)
        self.rmq = ExpressionQuantifiersRemover(W.env)

    def perform(self, op, fault=None):
        """Returns (outcome, LineFault or None).  outcome is JSON-able."""
        W = self.W
        env = W.env
        k = op["op"]
        stage = "build"
        lf = None
        try:
            if fault is not None and fault["kind"] == "async_mem":
                lf = LineFault(at=fault.get("at"), exc=SimCancel if fault.get("exc") == "cancel" else MemoryError)
                lf.__enter__()
            e = W.expr(op["e"])
            if k == "subst":
                m = {}
                for a, b in op["map"]:
                    m[W.expr(a)] = W.expr(b)
            stage = "call"
            if k == "build":
                r = render(e)
            elif k == "type":
                r = render_type(e.type)
            elif k == "simplify":
                r = render(e.simplify())
            elif k == "psimplify":
                r = render(self.psimp.simplify(e))
            elif k == "subst":
                r = render(e.substitute(m))
            elif k == "fve":
                r = sorted(render(x) for x in env.free_vars_extractor.get(e))
            elif k == "fvo":
                r = sorted((v.name, render_type(v.type)) for v in env.free_vars_oracle.get_free_variables(e))
            elif k == "names":
                r = sorted(env.names_extractor.extract_names(e))
            elif k == "ifx":
                r = sorted(render(x) for x in env.interpreted_functions_extractor.get(e))
            elif k == "rmq":
                r = render(self.rmq.remove_quantifiers(e, {"half": self.problem2, "other": self.problem3}.get(op.get("objs"),
                                                                                                                  self.problem)))
            elif k == "pkind":
                # the kind computation of a problem whose goal is e: runs the environment's
                # simplifier and the linearity checker over the expression
                p2 = Problem("k", env)
                for f in self.problem.fluents:
                    p2.add_fluent(f)
                for o in self.problem.all_objects:
                    p2.add_object(o)
                p2.add_goal(e)
                r = sorted(p2.kind.features)
            else:
                raise BuildError(f"unknown op {k}")
            out = ["ok", _js(r)]
        except BuildError:
            raise
        except (Exception, SimCancel) as ex:
            out = ["exc", type(ex).__name__, stage]
        finally:
            if lf is not None:
                lf.__exit__()
        return out, lf


def _js(r):
    if isinstance(r, (tuple, list)):
        return [_js(x) for x in r]
    return r


class EnvHist(Engine):
    name = "envhist"
    props = ("C14",)
    nruns = {"quick": 2000, "thorough": 600}
    budgets = {"quick": 90.0, "thorough": 540.0}
    rule = (
        "script = world (2-level type hierarchy, 4-6 fluents, free parameters, 0-2 interpreted functions) + pool of "
        "6-12 expressions that share sub-expressions + 15-40 walker calls on ONE Environment (simplify, "
        "Simplifier(problem).simplify, substitute, type, free-vars extractor/oracle, names, interpreted-function "
        "extractor, quantifier removal over one of three objects sets (two of them of equal size), construction, kind computation of a problem with the expression as goal), some failing by themselves (ill-typed construction, division by "
        "a zero constant inside the walk, incompatible map, subtype-eliminating Exists), some hit by an injected "
        "callback failure or by MemoryError at a chosen line event; each unfaulted call is compared with the same call "
        "in a fresh Environment. non-trivial = a failure happened inside a library call (fired injected fault, or a "
        "natural failure) AND at least 3 later judged calls share a non-leaf sub-expression with the failed call; "
        "distinct = digest of the (operation kind, outcome class) sequence. For 1 script in 149 (quick) or every script "
        "(thorough) the fault position is ENUMERATED: every line-event position of the faulted call (all when <= 600, "
        "600 strided otherwise), one execution of the whole history per position."
    )
    real_components = (
        "Environment singletons: ExpressionManager, TypeChecker, Simplifier, Substituter, FreeVarsExtractor, "
        "FreeVarsOracle, NamesExtractor, InterpretedFunctionsExtractor",
        "Simplifier(env, problem), ExpressionQuantifiersRemover, FNode, Problem",
    )
    stub_components = ("interpreted-function callables (script tables)",)
    assumptions = (
        "results are compared through a canonical rendering (quantified variables and result sets sorted)",
        "the faulted call itself is not judged; every later call is",
        "injected asynchronous failure is MemoryError at a CPython line event inside unified_planning/",
    )

    def level_for(self, tier):
        # both tiers enumerate every fault position of the faulted call for a share of the
        # scripts (quick: 1 script in 149, thorough: all of them)
        return "fault_enumeration"

    def profiles(self, tier):
        if tier == "thorough":
            return ["enum"]
        # 149 entries (coprime with any worker count, so the enumerated scripts spread over
        # the workers), one of them enumerated
        p = (["reject", "async", "callback", "async"] * 37) + ["enum"]
        return p

    # ----------------------------------------------------------------- generate
    def gen_world(self, rw):
        types, objs = gen_types(rw)
        tnames = [t for t, _ in types]
        fluents = gen_fluents(rw, types, rw.randint(4, 6))
        # make sure there is at least one bool, one bounded int and one numeric
        fluents[0]["type"] = ["bool"]
        fluents[1]["type"] = ["int", 0, 5]
        fluents[1]["params"] = []
        fluents[2]["type"] = ["real", None, None] if rw.random() < 0.5 else ["int", None, None]
        params = [["p0", ["user", "T"]], ["p1", ["user", rw.choice(tnames)]]]
        ifuns = []
        for i in range(rw.choice([0, 1, 1, 2])):
            ret = rw.choice([["int", None, None], ["bool"], ["real", None, None]])
            ps = rw.choice([[["int", None, None]], [["int", None, None], ["int", None, None]], [["user", "T"]]])
            if ret[0] == "bool":
                dv, tv = ["bool", False], [["bool", True], ["bool", False]]
            elif ret[0] == "int":
                dv, tv = ["int", 1], [["int", 0], ["int", 2], ["int", -3]]
            else:
                dv, tv = ["real", "1/2"], [["real", "3/2"], ["int", 2], ["real", "-1/3"]]
            table = []
            for _ in range(rw.randint(0, 4)):
                key = [rw.randint(-2, 5) if p[0] == "int" else rw.choice([o for o, _ in objs]) for p in ps]
                table.append([key, rw.choice(tv)])
            ifuns.append({"name": f"if{i}", "ret": ret, "params": ps, "table": table, "default": dv})
        world = {"types": types, "objects": objs, "fluents": fluents, "params": params, "ifuns": ifuns}
        tmap = dict(types)
        init = []
        dyn = []
        from .statehist import ground_fluents
        for fe in ground_fluents(world):
            fd = next(f for f in fluents if f["name"] == fe[1])
            vals = values_of(fd["type"], objs, tmap)
            if vals and rw.random() < 0.8:
                init.append([fe, rw.choice(vals)])
            if vals and rw.random() < 0.4:
                dyn.append([fe, rw.choice(vals)])
        world["init"] = init
        world["dynamic"] = dyn
        return world

    def generate(self, seed, profile, tier):
        rw, rp, ro, rf = (stream(seed, l) for l in ("world", "pool", "ops", "faults"))
        if profile == "enum":
            profile = "async"
        world = self.gen_world(rw)
        tmap = dict(world["types"])
        params = [(n, t) for n, t in world["params"]]
        g = ExprGen(rp, world, params)
        pool = []  # (kind, descriptor)
        for i in range(rp.randint(6, 12)):
            r = rp.random()
            bools = [e for k, e in pool if k == "bool"]
            nums = [e for k, e in pool if k == "num"]
            if r < 0.35 or not pool:
                if rp.random() < 0.7:
                    pool.append(("bool", g.bool_expr(rp.randint(1, 3))))
                else:
                    pool.append(("num", g.num_expr(rp.randint(1, 2))))
            elif r < 0.75 and bools:
                a = rp.choice(bools)
                c = rp.choice(["and", "or", "not", "implies", "and2", "quant"])
                if c == "not":
                    pool.append(("bool", ["not", a]))
                elif c == "and2" and len(bools) > 1:
                    pool.append(("bool", ["and", a, rp.choice(bools)]))
                elif c == "quant":
                    t = rp.choice([t for t in g.user_types() if g.can_obj(t)])
                    g.nvar += 1
                    vn = f"q{g.nvar}"
                    g.vars.append((vn, ["user", t]))
                    body = ["and", a, g.bool_expr(1)]
                    g.vars.pop()
                    pool.append(("bool", [rp.choice(["exists", "forall"]), [[vn, ["user", t]]], body]))
                else:
                    c = "and" if c == "and2" else c
                    args = [a, g.bool_expr(rp.randint(0, 2))]
                    rp.shuffle(args)
                    pool.append(("bool", [c] + args))
            elif nums:
                a = rp.choice(nums)
                c = rp.choice(["plus", "le", "times", "minus"])
                if c == "le":
                    pool.append(("bool", ["le", a, g.num_expr(1)]))
                elif c == "times":
                    pool.append(("num", ["times", a, g.num_const()]))
                else:
                    pool.append(("num", [c, a, g.num_expr(1)]))
            else:
                pool.append(("bool", g.bool_expr(2)))

        gsub = ExprGen(ro, world, params)

        def sub_map(e, bad=False):
            """Substitution map over sub-terms of e."""
            keys = []
            def walk(x, bound):
                if not (isinstance(x, list) and x and isinstance(x[0], str)):
                    return
                if x[0] in ("f", "p", "v", "if") or (x[0] in ("and", "or", "plus", "le", "not", "eq") and ro.random() < 0.3):
                    keys.append(x)
                if x[0] in ("exists", "forall"):
                    walk(x[2], bound)
                    return
                for c in x[1:]:
                    if isinstance(c, list):
                        walk(c, bound)
            walk(e, ())
            m = []
            if not keys:
                return m
            for kx in ro.sample(keys, min(len(keys), ro.randint(1, 3))):
                kind = self.kind_of(kx, world)
                if bad and ro.random() < 0.7:
                    val = ["int", 3] if kind == "bool" or isinstance(kind, tuple) else ["bool", True]
                elif kind == "bool":
                    val = gsub.bool_expr(ro.randint(0, 1))
                elif kind == "num":
                    val = gsub.num_expr(ro.randint(0, 1))
                else:
                    try:
                        val = gsub.obj_expr(kind[1], 0)
                    except ValueError:
                        continue
                m.append([kx, val])
            return m

        def reject_op():
            c = ro.choice(["illtyped", "illtyped", "div0", "subst-div0", "badmap", "subtype-exists", "eqbool"])
            bools = [e for k, e in pool if k == "bool"] or [["bool", True]]
            nums = [e for k, e in pool if k == "num"] or [["int", 1]]
            if c == "illtyped":
                e = ro.choice([
                    ["and", ro.choice(nums), ro.choice(bools)],
                    ["plus", ro.choice(bools), ro.choice(nums)],
                    ["not", ro.choice(nums)],
                    ["le", ["o", world["objects"][0][0]], ro.choice(nums)],
                    ["or", ro.choice(bools), ["and", ro.choice(bools), ro.choice(nums)]],
                ])
                return {"op": ro.choice(["build", "simplify", "type"]), "e": e, "why": c}
            if c == "eqbool":
                b = ro.choice(bools)
                return {"op": "build", "e": ["eq", b, ro.choice(bools)], "why": c}
            if c == "div0":
                e = ["div", ro.choice(nums), ["int", 0]]
                if ro.random() < 0.5:
                    e = ["lt", e, ro.choice(nums)]
                return {"op": ro.choice(["build", "simplify", "psimplify"]), "e": e, "why": c}
            if c == "subst-div0":
                fl = ["f", world["fluents"][1]["name"]]
                inner = ["div", ro.choice(nums + [["int", 3]]), fl]
                e = ro.choice([["lt", inner, ro.choice(nums)], ["and", ro.choice(bools), ["le", ["int", 1], inner]],
                               ["plus", inner, ro.choice(nums)]])
                return {"op": "subst", "e": e, "map": [[fl, ["int", 0]]], "why": c}
            if c == "badmap":
                e = ro.choice(bools)
                m = sub_map(e, bad=True)
                return {"op": "subst", "e": e, "map": m, "why": c}
            # subtype-eliminating exists: Exists w:S . (b & p0 == w) with p0 : T
            sub = [t for t, f in world["types"] if f is not None and g.can_obj(t)]
            if not sub:
                return {"op": "build", "e": ["not", ro.choice(nums)], "why": "illtyped"}
            t = sub[0]
            sup = tmap[t]
            supp = [n for n, pt in params if pt[1] == sup]
            lhs = ["p", supp[0]] if supp else ["o", g.objects_of(sup)[0]]
            w = ["v", "w", ["user", t]]
            eq = ["eq", lhs, w] if ro.random() < 0.5 else ["eq", w, lhs]
            e = ["exists", [["w", ["user", t]]], ["and", ro.choice(bools), eq]]
            return {"op": ro.choice(["simplify", "psimplify"]), "e": e, "why": c}

        def normal_op(e=None, kind=None, opk=None):
            if e is None:
                kind, e = ro.choice(pool)
            if opk is None:
                opk = ro.choices(["simplify", "subst", "type", "fve", "fvo", "names", "rmq", "psimplify", "build", "ifx", "pkind"],
                                 [5, 5, 1, 1, 1, 1, 2, 2, 1, 1, 1 if kind == "bool" else 0])[0]
            op = {"op": opk, "e": e}
            if opk == "subst":
                op["map"] = sub_map(e)
            if opk == "rmq" and ro.random() < 0.5:
                op["objs"] = ro.choice(["half", "other"])
            return op

        def embed(e, kind):
            if kind == "bool":
                return ro.choice([["not", e], ["and", e, gsub.bool_expr(1)], ["or", gsub.bool_expr(0), e]])
            return ro.choice([["plus", e, gsub.num_expr(0)], ["le", e, gsub.num_expr(1)]])

        nops = ro.randint(15, 40) * (stream(seed, "size").choice([1, 1, 1, 2, 3]) if tier == "thorough" else 1)  # thorough: one run in three is a long history
        ops = []
        reject_rate = ro.choice([0.1, 0.2, 0.3]) if profile != "async" else ro.choice([0.0, 0.1])
        for i in range(nops):
            if ro.random() < reject_rate:
                ops.append(reject_op())
            else:
                ops.append(normal_op())
        # faults: at most two, on operations that do real work, followed by related calls
        nf = 0
        if profile == "async":
            nf = rf.choice([1, 1, 2])
        elif profile == "callback":
            nf = 1
        for _ in range(nf):
            pos = rf.randint(2, max(2, len(ops) - 6))
            if profile == "callback":
                ifs = world["ifuns"]
                if not ifs:
                    break
                fd = rf.choice(ifs)
                args = []
                for p in fd["params"]:
                    args.append(["int", rf.randint(-2, 5)] if p[0] == "int" else ["o", g.objects_of(p[1])[0]])
                call = ["if", fd["name"]] + args
                if fd["ret"][0] == "bool":
                    e, kind = ["and", call, rf.choice([e for k, e in pool if k == "bool"] or [["bool", True]])], "bool"
                else:
                    e, kind = ["le", ["plus", call, ["int", 1]], rf.choice([e for k, e in pool if k == "num"] or [["int", 1]])], "bool"
                fop = {"op": rf.choice(["simplify", "psimplify"]), "e": e,
                       "fault": {"kind": "callback_raise", "fn": fd["name"], "nth": 1}}
            else:
                kind, e = rf.choice(pool)
                fop = normal_op(e, kind, rf.choice(["simplify", "subst", "rmq", "psimplify", "subst", "simplify"]))
                if rf.random() < 0.25:
                    fop = {"op": "build", "e": embed(e, kind)}
                fop["fault"] = {"kind": "async_mem", "frac": round(rf.random(), 4)}
                if rf.random() < 0.3:
                    fop["fault"]["exc"] = "cancel"   # a BaseException (cancellation), not MemoryError
            related = [
                normal_op(e, kind, fop["op"] if fop["op"] != "build" else "simplify"),
                normal_op(embed(e, kind), "bool", rf.choice(["simplify", "subst", "type", "rmq"])),
                normal_op(e, kind, rf.choice(["subst", "type", "fve", "names", "psimplify", "simplify"])),
            ]
            ops[pos:pos] = [fop] + related
        return {"engine": self.name, "world": world, "ops": ops}

    @staticmethod
    def kind_of(e, world):
        k = e[0]
        if k in ("and", "or", "not", "implies", "iff", "eq", "le", "lt", "ge", "gt", "exists", "forall", "bool"):
            return "bool"
        if k in ("plus", "minus", "times", "div", "int", "real"):
            return "num"
        if k == "f":
            t = next(f["type"] for f in world["fluents"] if f["name"] == e[1])
        elif k == "if":
            t = next(f["ret"] for f in world["ifuns"] if f["name"] == e[1])
        elif k == "p":
            t = next(pt for n, pt in world["params"] if n == e[1])
        elif k == "v":
            t = e[2]
        elif k == "o":
            t = ["user", next(ot for o, ot in world["objects"] if o == e[1])]
        else:
            raise BuildError(e)
        if t[0] == "bool":
            return "bool"
        if t[0] in ("int", "real"):
            return "num"
        return ("user", t[1])

    # ------------------------------------------------------------------ expand
    def expand(self, script, tier):
        if tier != "thorough" and script.get("profile") != "enum":
            return None
        ops = script["ops"]
        idx = [i for i, op in enumerate(ops) if op.get("fault", {}).get("kind") == "async_mem"]
        if not idx:
            return None
        i = idx[0]
        # only the first async fault is enumerated; later ones are dropped
        base = json.loads(json.dumps(script))
        for j in idx[1:]:
            del base["ops"][j]["fault"]
        n = self.count_events(base, i)
        if n <= 600:
            positions = list(range(1, n + 1))
        else:
            rs = stream(script["seed"], "positions")
            step = n / 600.0
            positions = sorted({min(n, max(1, int(k * step) + rs.randint(0, max(0, int(step) - 1)) + 1))
                                for k in range(600)})
        out = []
        for v, at in enumerate(positions):
            sc = dict(base)                      # shares everything but the faulted operation
            sc["ops"] = list(base["ops"])
            sc["ops"][i] = dict(base["ops"][i], fault=dict(base["ops"][i]["fault"], kind="async_mem", at=at))
            sc["variant"] = v
            sc["enumerated"] = {"op": i, "events": n, "positions": len(positions)}
            out.append(sc)
        return out or None

    def count_events(self, script, i):
        """Line events of op i when the prefix has been executed and nothing is injected."""
        E = EnvState(script["world"], Callbacks())
        for op in script["ops"][:i]:
            try:
                E.perform(op)
            except BuildError:
                pass
        _, lf = E.perform(script["ops"][i], {"kind": "async_mem", "at": None})
        return lf.count

    # ----------------------------------------------------------------- execute
    def execute(self, script, ctx):
        world = script["world"]
        wkey = digest(world)
        cb = Callbacks()
        E = EnvState(world, cb)
        failed_terms = None  # sub-terms of the most recent failed call
        after_fail_related = 0
        any_failure_inside = False
        ops = script["ops"]
        for i, op in enumerate(ops):
            ctx.op_index = i
            ctx.ops += 1
            fault = op.get("fault")
            eff_fault = None
            if fault:
                ctx.faults_cfg[fault["kind"]] += 1
                if fault["kind"] == "async_mem":
                    at = fault.get("at")
                    if at is None:
                        n = self.count_events({"world": world, "ops": [{k: v for k, v in o.items() if k != "fault"}
                                                                        for o in ops[:i]] + [op]}, i)
                        at = 1 + int(fault["frac"] * n)
                    eff_fault = {"kind": "async_mem", "at": at, "exc": fault.get("exc")}
                elif fault["kind"] == "callback_raise":
                    cb.arm(fault["fn"], fault["nth"])
            try:
                out, lf = E.perform(op, eff_fault)
            except BuildError:
                # dangling reference left behind by the minimiser: the op is a no-op
                ctx.ev(i, "skipped-unbuildable")
                continue
            finally:
                cb.disarm()
            fired = False
            if fault:
                if fault["kind"] == "async_mem" and lf is not None and lf.fired:
                    fired = True
                    ctx.faults_fired["async_mem"] += 1
                    ctx.probe("async-in:" + (lf.where[0] if lf.where else "?"))
                elif fault["kind"] == "callback_raise" and cb.fired:
                    fired = True
                    ctx.faults_fired["callback_raise"] += 1
            ctx.ev(i, op["op"], digest(op["e"]), "->", out[0], out[1] if out[0] == "exc" else digest(out[1]),
                   "fired" if fired else "")
            ctx.outcome(op["op"], out[0] if out[0] == "ok" else out[1])
            if fired:
                # the faulted call itself is not judged
                failed_terms = subterms(op["e"])
                after_fail_related = 0
                any_failure_inside = True
                if out[0] == "ok":
                    ctx.probe("fault-swallowed")
                continue
            # reference: the same call in a fresh environment that has seen nothing else
            key = wkey + digest({k: v for k, v in op.items() if k not in ("fault", "why")})
            ref = _REF_CACHE.get(key)
            if ref is None:
                F = EnvState(world, None)
                ref, _ = F.perform(op)
                if len(_REF_CACHE) > 20000:
                    _REF_CACHE.clear()
                _REF_CACHE[key] = ref
            if ref[0] == "exc":
                ctx.probe("natural-failure:" + op.get("why", ref[1]))
            if out[0] == "exc" and ref[0] == "ok":
                ctx.fail("C14.usable",
                         f"op {i} {op['op']} raised {out[1]} at stage {out[2]} on the shared environment; the same call on a "
                         f"fresh environment succeeds", cls=out[1])
            elif out[0] == "ok" and ref[0] == "exc":
                ctx.fail("C14.fresh-eq",
                         f"op {i} {op['op']} succeeded on the shared environment; the same call on a fresh environment "
                         f"raises {ref[1]} at stage {ref[2]}", cls="accepted-after-failure")
            elif out[0] == "exc":
                ctx.check("C14.fresh-eq", out[1] == ref[1],
                          f"op {i} {op['op']} raised {out[1]} on the shared environment, {ref[1]} on a fresh one",
                          cls="other-exception")
                if failed_terms is None or True:
                    failed_terms = subterms(op["e"])
                    after_fail_related = 0
                    any_failure_inside = True
                continue
            else:
                ctx.check("C14.fresh-eq", out[1] == ref[1],
                          f"op {i} {op['op']} on {json.dumps(op['e'])[:200]}: shared environment gives "
                          f"{json.dumps(out[1])[:200]}, fresh environment gives {json.dumps(ref[1])[:200]}",
                          cls="wrong-result")
            if failed_terms is not None and subterms(op["e"]) & failed_terms:
                after_fail_related += 1
                if after_fail_related >= 3:
                    ctx.probe("three-related-calls-after-failure")
        return any_failure_inside and ctx.probes.get("three-related-calls-after-failure", 0) > 0
