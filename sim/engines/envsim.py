"""C35 -- SimulatedExecutionEnvironment against its contingent problem (engine `envsim`).

Real code: SimulatedExecutionEnvironment, ContingentProblem, SensingAction,
UPSequentialSimulator (inside the environment), pysmt + z3 model enumeration.
Stubs: the PRNG (module attribute `random` of execution_environment is replaced by a shim whose
choice() is decided by the script) and the agent (the script).
Reference: sim/refsem.py on the deterministic world the script describes.
"""
import json as _json
import sys
import warnings
from collections import OrderedDict
from fractions import Fraction
from itertools import product

from ..core import Engine, stream, BuildError, digest
from ..build import World
from ..gen import ExprGen, gen_types, values_of, subtype_of
from ..refsem import RefSem, Ambiguous, state_key
from ..inject import Callbacks
from .statehist import KNOBS

import unified_planning as up
from unified_planning.model import UPState, InstantaneousAction, Fluent
from unified_planning.model.contingent import ContingentProblem, SensingAction
from unified_planning.model.contingent import execution_environment as ee_mod
from unified_planning.plans import ActionInstance
from unified_planning.exceptions import UPUsageError, UPStateMissingFluentError


class json:  # noqa: N801 -- key-sorted renderings only: details must not depend on dict order
    @staticmethod
    def dumps(o, **kw):
        kw.setdefault("sort_keys", True)
        return _json.dumps(o, **kw)


def show(d):
    """Deterministic rendering of a dict keyed by ground fluents."""
    if d is None:
        return "None"
    return "{" + ", ".join(f"{'.'.join(map(str, k)) if isinstance(k, tuple) else k}={v}"
                           for k, v in sorted(d.items(), key=lambda kv: str(kv[0]))) + "}"


def gkey(fe):
    return (fe[1],) + tuple(a[1] for a in fe[2:])


def valid_hidden(world):
    """All assignments of the hidden ground fluents that satisfy the constraints, by brute
    force, in canonical order.  Each is a tuple of booleans aligned with world['hidden']."""
    # hidden = what the constraints mention (that is how the library defines it)
    mentioned = []
    for c in world["constraints"]:
        for l in (c["lits"][1:2] if c.get("via") == "unknown" else c["lits"]):
            k = gkey(l[1]) if l[0] == "not" else gkey(l)
            if k not in mentioned:
                mentioned.append(k)
    hid = [gkey(h) for h in world["hidden"] if gkey(h) in mentioned]
    # (a script whose `hidden` list lost an entry: what the constraints mention is hidden all the same)
    hid += [k for k in mentioned if k not in hid]
    out = []
    for combo in product([False, True], repeat=len(hid)):
        val = dict(zip(hid, combo))
        ok = True
        for c in world["constraints"]:
            if c.get("via") == "unknown":
                continue  # add_unknown_initial_constraint: both values are possible
            lits = [val[gkey(l[1])] ^ True if l[0] == "not" else val[gkey(l)] for l in c["lits"]]
            n = sum(1 for x in lits if x)
            if c["kind"] == "oneof" and n != 1:
                ok = False
            if c["kind"] == "or" and n < 1:
                ok = False
        if ok:
            out.append(combo)
    return hid, out


class ChoiceShim:
    """Replaces the `random` module inside execution_environment for one construction."""

    def __init__(self, target):
        self.target = target  # dict ground key -> bool, or None
        self.offered = None
        self.chosen = None
        self.mapped = False

    def choice(self, seq):
        seq = list(seq)
        s2f = None
        try:
            s2f = sys._getframe(1).f_locals.get("symbol_to_fnode")
        except Exception:
            s2f = None
        cands = []
        for res in seq:
            if s2f is not None:
                d = {}
                for k, v in res.items():
                    f = s2f[k]
                    d[(f.fluent().name,) + tuple(a.object().name for a in f.args)] = v.is_true()
                cands.append(d)
                self.mapped = True
            else:
                cands.append({str(k): v.is_true() for k, v in res.items()})
        self.offered = cands
        order = sorted(range(len(seq)), key=lambda i: sorted(cands[i].items()))
        pick = order[0] if order else None
        if self.target is not None and self.mapped:
            for i in order:
                if all(cands[i].get(k) == v for k, v in self.target.items()):
                    pick = i
                    break
        if pick is None:
            raise IndexError("Cannot choose from an empty sequence")
        self.chosen = cands[pick]
        return seq[pick]

    def __getattr__(self, name):  # anything else behaves like the real module
        import random as _r
        return getattr(_r, name)


class EnvSim(Engine):
    name = "envsim"
    props = ("C35",)
    nruns = {"quick": 5000, "thorough": 400000}
    budgets = {"quick": 45.0, "thorough": 540.0}
    rule = (
        "script = contingent problem (optionally an earlier capped environment on the same problem; optionally a SECOND live environment "
        "in another hidden world, the steps alternating between the two; optionally a user function of a "
        "parameter in preconditions that raises inside 1-3 steps; 3-6 hidden Boolean ground fluents under unknown / oneof / or constraints, some with a default or "
        "an explicit value the drawn state must override; refused re-declarations of fluents with other defaults; "
        "non-hidden Boolean, bounded-int and object-valued fluents whose initial value is explicit, a per-fluent default "
        "or a per-type default; sensing actions observing 1-2 fluents; ordinary actions with conditional effects on "
        "hidden fluents) + the index of the hidden state the PRNG shim must pick among the valid ones (brute force) + "
        "5-25 agent steps (apply, ~25% inapplicable; is_goal_reached). Oracles: every hidden state offered to the PRNG "
        "satisfies all constraints; the start state equals the declared one; observations, state and goal verdicts equal "
        "the reference interpreter's; a refused action raises UPUsageError and changes nothing. non-trivial = >= 2 "
        "candidate hidden states AND >= 1 sensing action executed AND >= 1 refused action AND a non-Boolean fluent with a "
        "default; distinct = digest of the (step kind, outcome class) sequence"
    )
    real_components = ("SimulatedExecutionEnvironment", "ContingentProblem, SensingAction", "UPSequentialSimulator",
                       "pysmt + z3 (all_smt model enumeration)")
    stub_components = ("PRNG: module attribute `random` of execution_environment replaced by a scripted choice()",
                       "the agent (scripted action sequence)")
    assumptions = (
        "the start state and the current state of the environment are read through its private _state (read-only)",
        "the environment under test is built with the default max_constraints (no constraint is dropped); an earlier, capped environment on the same problem is part of 25% of the scripts",
    )

    def profiles(self, tier):
        return ["default", "defaults", "default"]

    # ----------------------------------------------------------------- generate
    def generate(self, seed, profile, tier):
        rw, ra, ro, rk = (stream(seed, l) for l in ("world", "actions", "ops", "knobs"))
        types, objs = gen_types(rw)
        tmap = dict(types)
        tnames = [t for t, _ in types]
        fluents = []
        hidden = []
        # hidden Boolean fluents
        nh = rw.randint(2, 4)
        for i in range(nh):
            fd = {"name": f"h{i}", "type": ["bool"], "params": [], "default": None}
            if rw.random() < 0.3:
                fd["params"] = [["x0", ["user", rw.choice(tnames)]]]
            if rw.random() < 0.3:
                fd["default"] = ["bool", rw.random() < 0.5]
            fluents.append(fd)
        tmpw = {"types": types, "objects": objs, "fluents": fluents}
        for gf in RefSem(tmpw).ground_fluents():
            hidden.append(["f", gf[0]] + [["o", o] for o in gf[1:]])
        # at most 6 hidden ground fluents; the other instances of those fluents are ordinary
        # fluents and get an explicit initial value
        leftover = hidden[6:]
        hidden = hidden[:6]
        hk = {gkey(h) for h in hidden}
        # constraints over the hidden ground fluents
        constraints = []
        pool = list(hidden)
        rw.shuffle(pool)
        while pool:
            k = rw.choice(["unknown", "oneof", "or", "oneof"])
            if k == "unknown" or len(pool) < 2:
                h = pool.pop()
                constraints.append({"kind": "or", "via": "unknown", "lits": [["not", h], h]})
            else:
                n = min(len(pool), rw.randint(2, 3))
                lits = [pool.pop() for _ in range(n)]
                if rw.random() < 0.25:
                    lits[0] = ["not", lits[0]]
                constraints.append({"kind": k, "via": k, "lits": lits})
        # sometimes one more constraint linking two groups
        if len(hidden) >= 3 and rw.random() < 0.4:
            a, b = rw.sample(hidden, 2)
            constraints.append({"kind": "or", "via": "or", "lits": [a, ["not", b]]})
        # non-hidden fluents with declared initial values
        type_defaults = []
        if profile == "defaults" or rw.random() < 0.4:
            type_defaults.append([["bool"], ["bool", True]])
        if profile == "defaults" or rw.random() < 0.4:
            type_defaults.append([["int", 0, 5], ["int", rw.randint(1, 5)]])
        if rw.random() < 0.3:
            ot = rw.choice(tnames)
            cands = [o for o, t in objs if subtype_of(tmap, t, ot)]
            if cands:
                type_defaults.append([["user", ot], ["o", rw.choice(cands)]])
        nn = rw.randint(2, 4)
        init = [[h, ["bool", rw.random() < 0.5]] for h in leftover]
        # explicit initial values the modeller left on hidden fluents (the drawn hidden state overrides them)
        if rw.random() < 0.35:
            for h in rw.sample(hidden, min(len(hidden), rw.randint(1, 2))):
                init.append([h, ["bool", rw.random() < 0.5]])
        for i in range(nn):
            k = rw.choice(["bool", "int", "user", "int"])
            t = {"bool": ["bool"], "int": ["int", 0, 5], "user": ["user", rw.choice(tnames)]}[k]
            fd = {"name": f"n{i}", "type": t, "params": [], "default": None, "source": None}
            if rw.random() < 0.25:
                fd["params"] = [["x0", ["user", rw.choice(tnames)]]]
            vals = values_of(t, objs, tmap)
            if not vals:
                continue
            has_td = any(td[0] == t for td in type_defaults)
            src = rw.choice(["explicit", "fluent-default", "type-default" if has_td else "fluent-default"])
            fd["source"] = src
            if src == "fluent-default":
                fd["default"] = rw.choice(vals)
            fluents.append(fd)
            if src == "explicit" or (src != "type-default" and rw.random() < 0.3):
                w2 = {"types": types, "objects": objs, "fluents": [fd]}
                for gf in RefSem(w2).ground_fluents():
                    if src == "explicit" or rw.random() < 0.5:
                        init.append([["f", gf[0]] + [["o", o] for o in gf[1:]], rw.choice(vals)])
        world = {"types": types, "objects": objs, "fluents": fluents, "hidden": hidden, "constraints": constraints,
                 "type_defaults": type_defaults, "init": init}
        if rw.random() < 0.3:
            red = []
            for fd in rw.sample(fluents, min(len(fluents), rw.randint(1, 2))):
                vals = values_of(fd["type"], objs, tmap)
                red.append([fd["name"], rw.choice(vals) if vals and rw.random() < 0.6 else None])
            world["redeclare"] = red
        # actions
        actions = []
        gw = {"types": types, "objects": objs, "fluents": fluents, "ifuns": []}
        for ai in range(ra.randint(2, 4)):
            params = [["p0", ["user", ra.choice(tnames)]]] if ra.random() < 0.4 else []
            g = ExprGen(ra, gw, [(n, t) for n, t in params], quant=ra.random() < 0.3, ifuns=False, div=False,
                        const_range=(0, 3))
            ad = {"name": f"a{ai}", "params": params, "pre": [g.bool_expr(ra.randint(0, 1))] if ra.random() < 0.5 else [],
                  "effects": []}
            if ra.random() < 0.45:
                ad["sensing"] = True
                obs = []
                for _ in range(ra.randint(1, 2)):
                    fd = ra.choice(fluents)
                    try:
                        obs.append(g.fluent_app(fd, 0))
                    except ValueError:
                        pass
                ad["observes"] = obs or [hidden[0]]
            else:
                taken = set()
                for _ in range(ra.randint(1, 3)):
                    fd = ra.choice(fluents)
                    t = fd["type"]
                    try:
                        target = g.fluent_app(fd, 0)
                    except ValueError:
                        continue
                    vals = values_of(t, objs, tmap)
                    if not vals:
                        continue
                    cond = g.bool_atom(0) if ra.random() < 0.5 else None
                    if t[0] != "bool" and cond is None:
                        if fd["name"] in taken:
                            continue
                        taken.add(fd["name"])
                    kind = "assign"
                    value = ra.choice(vals)
                    if t[0] == "int" and ra.random() < 0.4:
                        kind, value = ra.choice(["inc", "dec"]), ["int", 1]
                        if fd["name"] in taken and cond is None:
                            continue
                    ad["effects"].append({"kind": kind, "fluent": target, "value": value, "cond": cond, "forall": []})
            actions.append(ad)
        rif = stream(seed, "ifun")
        if rif.random() < 0.3:
            # a user function of a PARAMETER or a CONSTANT in some preconditions: evaluated once, while the action
            # instance is grounded on its first use
            t0 = tnames[0]
            world["ifuns"] = [{"name": "ok", "ret": ["bool"], "params": [["user", t0]],
                               "table": [[[o], ["bool", rif.random() < 0.8]] for o, ot in objs if subtype_of(tmap, ot, t0)],
                               "default": ["bool", True]}]
            some = [o for o, ot in objs if subtype_of(tmap, ot, t0)]
            for ad in actions:
                if rif.random() < 0.6 and some:
                    own = [pn for pn, pt in ad["params"] if subtype_of(tmap, pt[1], t0)]
                    arg = ["p", own[0]] if own else ["o", rif.choice(some)]
                    ad["pre"] = list(ad["pre"]) + [["if", "ok", arg]]
        world["actions"] = actions
        g = ExprGen(ra, gw, [], quant=False, ifuns=False, div=False, const_range=(0, 3))
        world["goals"] = [g.bool_expr(ra.randint(0, 1))]
        # which hidden state: index among the valid ones
        hid, valid = valid_hidden(world)
        pick = ro.randint(0, 10 ** 6)
        det = self.det_world(world, dict(zip(hid, valid[pick % len(valid)])) if valid else {})
        rs = RefSem(det)
        st = rs.initial_state()
        ops = []
        insts = [(a["name"], p) for a in actions for p in rs.ground_instances(a["name"])]
        for i in range(ro.randint(5, 25)):
            if ro.random() < 0.2 or not insts:
                ops.append({"op": "goal"})
                continue
            # bias: ~25% inapplicable
            want_bad = ro.random() < 0.25
            cand = None
            for _ in range(8):
                an, ps = ro.choice(insts)
                try:
                    ok, new, why = rs.successor(st, an, ps)
                except Ambiguous:
                    continue
                if (not ok) == want_bad:
                    cand = (an, ps, ok, new)
                    break
                cand = cand or (an, ps, ok, new)
            if cand is None:
                continue
            an, ps, ok, new = cand
            ops.append({"op": "apply", "a": an, "params": list(ps)})
            if ok:
                st = new
        script = {"engine": self.name, "knobs": {"max_ancestors": rk.choice(KNOBS)}, "world": world,
                  "pick": pick, "ops": ops}
        r2e = stream(seed, "second-env")
        if r2e.random() < 0.3:
            script["second_env"] = {"pick": r2e.randint(0, 10 ** 6)}
            for o in ops:
                if r2e.random() < 0.5:
                    o["env"] = "B"
        rfa = stream(seed, "faults")
        if world.get("ifuns"):
            steps = [o for o in ops if o["op"] == "apply"]
            for o in rfa.sample(steps, min(len(steps), rfa.choice([1, 2, 3]))):
                o["fault"] = {"kind": "callback_raise", "fn": world["ifuns"][0]["name"], "nth": 1}
        re_ = stream(seed, "earlier-env")
        if re_.random() < 0.25 and len(constraints) >= 2:
            script["earlier_env"] = {"max_constraints": re_.randint(1, len(constraints) - 1)}
        return script

    @staticmethod
    def det_world(world, hidden_val):
        """The deterministic world the environment must behave like, as a refsem world."""
        fluents = []
        for fd in world["fluents"]:
            f2 = {"name": fd["name"], "type": fd["type"], "params": fd["params"], "default": fd.get("default")}
            if f2["default"] is None and not fd["name"].startswith("h"):
                for td in world.get("type_defaults", []):
                    if td[0] == fd["type"]:
                        f2["default"] = td[1]
            fluents.append(f2)
        init = [iv for iv in world["init"]]
        for k, v in hidden_val.items():
            init.append([["f", k[0]] + [["o", o] for o in k[1:]], ["bool", bool(v)]])
        actions = []
        for ad in world["actions"]:
            actions.append({"name": ad["name"], "params": ad["params"], "pre": ad["pre"],
                            "effects": [] if ad.get("sensing") else ad["effects"]})
        return {"types": world["types"], "objects": world["objects"], "fluents": fluents, "init": init,
                "actions": actions, "goals": world["goals"], "invariants": [], "ifuns": world.get("ifuns", [])}

    # ------------------------------------------------------------------ execute
    def execute(self, script, ctx):
        saved = UPState.MAX_ANCESTORS
        saved_random = ee_mod.random
        UPState.MAX_ANCESTORS = script["knobs"]["max_ancestors"]
        try:
            return self._run(script, ctx)
        finally:
            UPState.MAX_ANCESTORS = saved
            ee_mod.random = saved_random

    def build_problem(self, W, world):
        idf = {}
        for t, v in world.get("type_defaults", []):
            idf[W.type(t)] = W.expr(v)
        p = ContingentProblem("c", W.env, initial_defaults=idf)
        for fd in world["fluents"]:
            f = W.fluents[fd["name"]]
            if fd.get("default") is not None:
                p.add_fluent(f, default_initial_value=W.expr(fd["default"]))
            else:
                p.add_fluent(f)
        for o in W.objects.values():
            p.add_object(o)
        # refused re-declarations (a fault of kind `reject` while the problem is being built): a structurally equal
        # fluent offered again with another default must change nothing
        for name, dv in world.get("redeclare", []):
            if name not in W.fluents:
                continue
            f = W.fluents[name]
            twin = Fluent(f.name, f.type, list(f.signature), W.env)
            try:
                with warnings.catch_warnings():
                    warnings.simplefilter("ignore")
                    if dv is None:
                        p.add_fluent(twin)
                    else:
                        p.add_fluent(twin, default_initial_value=W.expr(dv))
            except Exception:
                pass
        for fe, v in world["init"]:
            p.set_initial_value(W.expr(fe), W.expr(v))
        for c in world["constraints"]:
            lits = [W.expr(l) for l in c["lits"]]
            if c.get("via") == "unknown":
                p.add_unknown_initial_constraint(W.expr(c["lits"][1]))
            elif c["kind"] == "oneof":
                p.add_oneof_initial_constraint(lits)
            else:
                p.add_or_initial_constraint(lits)
        acts = {}
        for ad in world["actions"]:
            sig = OrderedDict((pn, W.type(pt)) for pn, pt in ad["params"])
            if ad.get("sensing"):
                a = SensingAction(ad["name"], sig, W.env)
                scope = {q.name: q for q in a.parameters}
                for pre in ad["pre"]:
                    a.add_precondition(W.expr(pre, scope))
                if any(not (isinstance(o, list) and o and o[0] == "f") for o in ad["observes"]):
                    raise BuildError("observed expression is not a fluent")
                a.add_observed_fluents([W.expr(o, scope) for o in ad["observes"]])
            else:
                a = InstantaneousAction(ad["name"], sig, W.env)
                scope = {q.name: q for q in a.parameters}
                for pre in ad["pre"]:
                    a.add_precondition(W.expr(pre, scope))
                for ed in ad["effects"]:
                    W.add_effect(a, ed, scope)
            p.add_action(a)
            acts[ad["name"]] = a
        for g in world["goals"]:
            p.add_goal(W.expr(g))
        return p, acts

    def _run(self, script, ctx):
        world = script["world"]
        hid, valid = valid_hidden(world)
        if not valid:
            ctx.probe("discarded-unsatisfiable-constraints")
            return False
        target = dict(zip(hid, valid[script["pick"] % len(valid)]))
        for c in world["constraints"]:
            for l in c["lits"]:
                l2 = l[1] if isinstance(l, list) and l and l[0] == "not" and len(l) == 2 else l
                if not (isinstance(l2, list) and l2 and l2[0] == "f"):
                    raise BuildError("constraint literal is not a (negated) fluent")
        # the generator declares a value for every non-Boolean fluent; a script that does not (a minimised one) is
        # outside the statement ("takes the problem's declared initial value")
        rs_decl = RefSem(self.det_world(world, {}))
        declared = rs_decl.initial_state()
        ftype = {fd["name"]: fd["type"][0] for fd in world["fluents"]}
        if any(gf not in declared and gf not in hid and ftype.get(gf[0]) != "bool" for gf in rs_decl.ground_fluents()):
            ctx.probe("discarded-undeclared-non-boolean-fluent")
            return False
        try:
            cb = Callbacks()
            W = World(world, callbacks=cb)
            problem, acts = self.build_problem(W, world)
        except BuildError:
            raise
        except Exception as ex:
            ctx.probe("discarded-unbuildable-world:" + type(ex).__name__ + ":" + str(ex)[:70])
            return False
        pre = script.get("earlier_env")
        if pre:
            # another environment built EARLIER in the same process on the same problem, with a cap on the number of
            # constraints it considers: what that one did must not leak into the next
            ee_mod.random = ChoiceShim(None)
            try:
                with warnings.catch_warnings():
                    warnings.simplefilter("ignore")
                    ee_mod.SimulatedExecutionEnvironment(problem, max_constraints=pre["max_constraints"])
                ctx.probe("earlier-capped-environment")
            except Exception as ex:
                ctx.ev("earlier environment", type(ex).__name__)
            finally:
                ee_mod.random = sys.modules["random"]
        shim = ChoiceShim(target)
        ee_mod.random = shim
        ctx.op_index = 0
        try:
            with warnings.catch_warnings():
                warnings.simplefilter("ignore")
                env = ee_mod.SimulatedExecutionEnvironment(problem)
        except Exception as ex:
            declared = RefSem(self.det_world(world, {})).initial_state()
            if any(gf not in declared and gf not in hid for gf in RefSem(self.det_world(world, {})).ground_fluents()):
                # a fluent with no declared value at all (outside the statement): nothing is promised
                ctx.probe("discarded-undeclared-fluent-and-constructor-raised")
                return False
            ctx.fail("C35.constructs", f"SimulatedExecutionEnvironment(problem) raised {type(ex).__name__}: {str(ex)[:300]}",
                     cls=type(ex).__name__)
            return False
        finally:
            ee_mod.random = sys.modules["random"]
        # ---- hidden state: everything offered to the PRNG must satisfy the constraints
        ctx.probe("candidates", 0)
        if shim.offered is None:
            ctx.fail("C35.prng-seam", "the environment did not draw its hidden state through random.choice", cls="seam")
        validset = {tuple(sorted(zip(hid, v))) for v in valid}
        if shim.mapped:
            for cand in shim.offered:
                key = tuple(sorted((k, cand.get(k)) for k in hid))
                ctx.check("C35.hidden-state-satisfies-constraints", key in validset,
                          f"a hidden state offered to the PRNG violates the oneof/or constraints: {show(cand)}; constraints "
                          f"{json.dumps(world['constraints'])[:400]}", cls="invalid-hidden-state")
            if len(shim.offered) >= 2:
                ctx.probe("two-or-more-candidates")
            ctx.probes["candidates"] += len(shim.offered)
            chosen = {k: shim.chosen.get(k) for k in hid}
        else:
            chosen = None
        # ---- start state
        gfs = RefSem(self.det_world(world, {})).ground_fluents()
        gfe = [(gf, W.expr(["f", gf[0]] + [["o", o] for o in gf[1:]])) for gf in gfs]

        def read():
            out = {}
            st = env._state
            for gf, node in gfe:
                try:
                    v = st.get_value(node)
                except UPStateMissingFluentError:
                    continue
                if v.is_object_exp():
                    out[gf] = v.object().name
                elif v.is_bool_constant():
                    out[gf] = v.bool_constant_value()
                else:
                    out[gf] = Fraction(v.constant_value())
            return out

        start = read()
        hidden_now = {k: start.get(k) for k in hid}
        if chosen is not None:
            ctx.check("C35.start-hidden", hidden_now == chosen,
                      f"the start state gives the hidden fluents {show(hidden_now)}, the state drawn was {show(chosen)}",
                      cls="hidden-differs")
        key = tuple(sorted(hidden_now.items()))
        ctx.check("C35.hidden-state-satisfies-constraints", key in validset,
                  f"the hidden start state {show(hidden_now)} violates the oneof/or constraints "
                  f"{json.dumps(world['constraints'])[:400]}", cls="invalid-start-state")
        det = self.det_world(world, hidden_now)
        rs = RefSem(det)
        model = rs.initial_state()
        # a fluent without ANY declared value is outside the statement ("takes the problem's
        # declared initial value"): whatever the environment starts it at is adopted
        for gf in gfs:
            if gf not in hid and gf not in model and gf in start:
                model[gf] = start[gf]
                ctx.probe("undeclared-fluent-adopted")
        nonhidden_ok = all(start.get(gf) == model.get(gf) for gf in gfs if gf not in hid)
        diff = {gf: (start.get(gf), model.get(gf)) for gf in gfs if gf not in hid and start.get(gf) != model.get(gf)}
        ctx.check("C35.start-declared-values", nonhidden_ok,
                  f"non-hidden fluents do not start at their declared values (environment, declared): {show(diff)}; sources "
                  f"{[(f['name'], f.get('source')) for f in world['fluents'] if f.get('source')]}", cls="start-differs")
        if any(f.get("source") in ("fluent-default", "type-default") and f["type"][0] != "bool" for f in world["fluents"]):
            ctx.probe("non-boolean-default")
        sensed = refused = 0
        # ---- optionally a SECOND live environment over the same problem, in another hidden world; the agent's steps
        # then alternate between the two, and each must behave as if it were alone
        envs, models, rss = {"A": env}, {"A": model}, {"A": rs}
        sec = script.get("second_env")
        if sec and len(valid) >= 2:
            targetB = dict(zip(hid, valid[sec["pick"] % len(valid)]))
            ee_mod.random = ChoiceShim(targetB)
            try:
                with warnings.catch_warnings():
                    warnings.simplefilter("ignore")
                    envB = ee_mod.SimulatedExecutionEnvironment(problem)
                envA_ = env
                env = envB
                startB = read()
                env = envA_
                hiddenB = {k: startB.get(k) for k in hid}
                if tuple(sorted(hiddenB.items())) in validset:
                    rsB = RefSem(self.det_world(world, hiddenB))
                    mB = rsB.initial_state()
                    for gf in gfs:
                        if gf not in hid and gf not in mB and gf in startB:
                            mB[gf] = startB[gf]
                    envs["B"], models["B"], rss["B"] = envB, mB, rsB
                    ctx.probe("second-live-environment")
            except Exception as ex:
                ctx.ev("second environment", type(ex).__name__)
            finally:
                ee_mod.random = sys.modules["random"]
        last_e = None
        for i, op in enumerate(script["ops"]):
            ctx.op_index = i + 1
            ctx.ops += 1
            if last_e is not None:
                models[last_e] = model
            last_e = op.get("env", "A") if op.get("env", "A") in envs else "A"
            env, model, rs = envs[last_e], models[last_e], rss[last_e]
            if op["op"] == "goal":
                try:
                    got = env.is_goal_reached()
                except Exception as ex:
                    ctx.fail("C35.goal", f"step {i}: is_goal_reached raised {type(ex).__name__}", cls=type(ex).__name__)
                try:
                    want = rs.is_goal(model)
                    ctx.check("C35.goal", bool(got) == want, f"step {i}: is_goal_reached = {got}, reference says {want} in "
                              f"{show(model)}", cls="goal-" + str(got))
                except Ambiguous:
                    ctx.skipped += 1
                ctx.ev(i, "goal", got)
                ctx.outcome("goal", str(got))
                continue
            if op["a"] not in acts or any(o not in W.objects for o in op["params"]):
                continue
            a = acts[op["a"]]
            ad = next(x for x in world["actions"] if x["name"] == op["a"])
            try:
                ai = ActionInstance(a, [W.objects[o] for o in op["params"]])
            except Exception:
                continue
            try:
                ok, new, why = rs.successor(model, op["a"], tuple(op["params"]))
            except Ambiguous:
                ctx.skipped += 1
                # keep the model in step with whatever the environment does
                try:
                    env.apply(ai)
                except Exception:
                    pass
                model = read()
                ctx.ev(i, "apply", op["a"], "ambiguous")
                ctx.outcome("apply", "ambiguous")
                continue
            fault = op.get("fault")
            if fault:
                ctx.faults_cfg["callback_raise"] += 1
                cb.arm(fault["fn"], fault["nth"])
            try:
                obs = env.apply(ai)
                res = "ok"
            except UPUsageError:
                res = "refused"
            except Exception as ex:
                res = type(ex).__name__
            finally:
                cb.disarm()
            if fault and cb.fired:
                # the user's function failed inside this step: the step failed and changed nothing; the steps that
                # follow are judged as if it had never been attempted
                ctx.faults_fired["callback_raise"] += 1
                ctx.probe("step-failed-in-user-code")
                ctx.check("C35.state", read() == model, f"step {i} failed in user code ({res}) but changed the state to "
                          f"{show(read())}, reference {show(model)}", cls="state-changed-by-failed-step")
                ctx.ev(i, "apply", op["a"], op["params"], "faulted", res)
                ctx.outcome("apply", "faulted")
                continue
            ctx.ev(i, "apply", op["a"], op["params"], res)
            ctx.outcome("sense" if ad.get("sensing") else "apply", res)
            if ok:
                ctx.check("C35.executes", res == "ok", f"step {i}: {op['a']}{op['params']} is applicable in {show(model)} "
                          f"but the environment answered {res}", cls="refused-applicable")
                model = new
                if ad.get("sensing"):
                    sensed += 1
                    env_ = {pn: o for (pn, _), o in zip(ad["params"], op["params"])}
                    want = {}
                    for o_ in ad["observes"]:
                        k_ = (o_[1],) + tuple(rs.ev(x, model, env_, lazy=True) for x in o_[2:])
                        want[k_] = model.get(k_)
                    got = {}
                    for fe, v in obs.items():
                        try:
                            k_ = (fe.fluent().name,) + tuple(x.object().name for x in fe.args)
                            got[k_] = (v.object().name if v.is_object_exp() else v.bool_constant_value()
                                       if v.is_bool_constant() else Fraction(v.constant_value()))
                        except Exception:
                            got[("unground-or-nonconstant", str(fe))] = str(v)
                    ctx.check("C35.observation", got == want, f"step {i}: sensing {op['a']}{op['params']} returned {show(got)}, "
                              f"current values are {show(want)}", cls="wrong-observation")
                else:
                    ctx.check("C35.observation", obs == {}, f"step {i}: ordinary action returned {len(obs)} observations",
                              cls="observation-from-ordinary-action")
            else:
                refused += 1
                ctx.check("C35.refuses", res == "refused", f"step {i}: {op['a']}{op['params']} is inapplicable ({why}) in "
                          f"{show(model)} but the environment answered {res}", cls="accepted-inapplicable-" + res)
            ctx.check("C35.state", read() == model, f"after step {i} ({op['a']}{op['params']} -> {res}) the environment is in "
                      f"{show(read())}, reference in {show(model)}", cls="state-differs")
            ctx.states.add(digest(state_key(model)))
        return (ctx.probes.get("two-or-more-candidates", 0) > 0 and sensed >= 1 and refused >= 1
                and ctx.probes.get("non-boolean-default", 0) > 0)
