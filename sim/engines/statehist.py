"""C36 -- UPState under update histories (engine `statehist`).

Real code: unified_planning.model.state.UPState (plus Problem/Fluent for defaults).
Reference model: one dict per state.  The simulator owns: the order of make_child /
observer calls on a branching tree of states, the ancestor-limit knob, rejected
updates.
"""
from ..core import Engine, stream, BuildError, digest, SimFault
from ..build import World, render

from unified_planning.model import UPState, Problem
from unified_planning.exceptions import UPStateMissingFluentError, UPValueError

KNOBS = [1, 2, 3, 20, None]


def ground_fluents(world):
    out = []
    objs = world.get("objects", [])
    types = dict((n, f) for n, f in world.get("types", []))

    def is_sub(t, anc):
        while t is not None:
            if t == anc:
                return True
            t = types.get(t)
        return False

    for fd in world["fluents"]:
        combos = [[]]
        for _, pt in fd.get("params", []):
            cands = [o for o, ot in objs if is_sub(ot, pt[1])]
            combos = [c + [["o", o]] for c in combos for o in cands]
        for c in combos:
            out.append(["f", fd["name"]] + c)
    return out


def values_for(t, objs, types):
    k = t[0]
    if k == "bool":
        return [["bool", True], ["bool", False]]
    if k == "int":
        return [["int", i] for i in range(0, 4)]
    if k == "real":
        return [["int", 0], ["real", "1/2"], ["int", 1], ["real", "3/2"], ["real", "-1/3"]]
    if k == "user":
        def is_sub(x, anc):
            while x is not None:
                if x == anc:
                    return True
                x = types.get(x)
            return False
        return [["o", o] for o, ot in objs if is_sub(ot, t[1])]
    raise BuildError(t)


class ProviderProblem(Problem):
    """A Problem whose `fluents_defaults` (what UPState reads defaults from) can be made to fail at its n-th access."""

    _armed = None
    _fired = False

    def arm(self, nth):
        self._armed, self._fired = [nth], False

    def disarm(self):
        self._armed = None
        return self._fired

    @property
    def fluents_defaults(self):
        if self._armed is not None:
            self._armed[0] -= 1
            if self._armed[0] == 0:
                self._fired = True
                raise SimFault("injected failure of the defaults provider")
        return Problem.fluents_defaults.fget(self)


class StateHist(Engine):
    name = "statehist"
    props = ("C36",)
    nruns = {"quick": 8000, "thorough": 400000}
    budgets = {"quick": 30.0, "thorough": 420.0}
    rule = (
        "script = seeded tree of UPState root/make_child operations over 3-6 ground fluents interleaved with "
        "observers (get_value on every ground fluent of every state after every operation, hash, ==, repr), observer / make_child calls "
        "during which the problem's fluents_defaults fails at its n-th access, fluents added to the problem while states are alive "
        "(one of them refused), work on a CLONE of the "
        "states' problem (write through its fluents_defaults, add_fluent, set_initial_value: no state may change) and "
        "rejected updates, under ancestor limit knob in {1,2,3,20,None} set either on UPState or on a subclass; "
        "non-trivial = at least one make_child took the condensing path (depth >= limit) AND at least one update "
        "wrote a value equal to the fluent's default AND at least one state-rewriting observer ran on a state "
        "that has children; distinct = digest of the (operation kind, outcome class) sequence of the run"
    )
    real_components = ("unified_planning.model.state.UPState", "Problem.add_fluent / fluents_defaults")
    stub_components = ()
    assumptions = (
        "values of real-typed fluents are generated in the canonical form auto_promote produces (integral -> Int)",
        "equality of states is only asserted between states of the same problem",
    )

    def profiles(self, tier):
        return ["default", "deep", "wide"]

    def generate(self, seed, profile, tier):
        rw = stream(seed, "world")
        ro = stream(seed, "ops")
        rk = stream(seed, "knobs")
        types = [["T", None]]
        objs = [["o0", "T"], ["o1", "T"]]
        if rw.random() < 0.5:
            types.append(["S", "T"])
            objs.append(["o2", "S"])
        fluents = []
        nfl = rw.randint(2, 4)
        tmap = dict(types)
        for i in range(nfl):
            tk = rw.choice(["bool", "bool", "int", "real", "user"])
            t = {"bool": ["bool"], "int": ["int", 0, 5], "real": ["real", None, None],
                 "user": ["user", "T"]}[tk]
            fd = {"name": f"f{i}", "type": t, "params": []}
            if rw.random() < 0.3:
                fd["params"] = [["x", ["user", rw.choice([n for n, _ in types])]]]
            dv = None
            if rw.random() < 0.65:
                dv = rw.choice(values_for(t, objs, tmap))
            fd["default"] = dv
            fluents.append(fd)
        world = {"types": types, "objects": objs, "fluents": fluents}
        gf = ground_fluents(world)
        ftype = {fd["name"]: fd["type"] for fd in fluents}
        fdef = {fd["name"]: fd["default"] for fd in fluents}

        def rand_updates(rng, kmax):
            ups = []
            for fe in rng.sample(gf, min(len(gf), rng.randint(0, kmax))):
                t = ftype[fe[1]]
                r = rng.random()
                if r < 0.25 and fdef[fe[1]] is not None:
                    v = fdef[fe[1]]  # explicit default-valued update
                else:
                    v = rng.choice(values_for(t, objs, tmap))
                ups.append([fe, v])
            return ups

        knob = rk.choice(KNOBS)
        via = rk.choice(["class_attr", "class_attr", "subclass"])
        nops = {"default": ro.randint(10, 40), "deep": ro.randint(25, 60), "wide": ro.randint(15, 45)}[profile]
        nops *= stream(seed, "size").choice([1, 1, 1, 2, 3]) if tier == "thorough" else 1
        ops = []
        ids = []
        grown = 0
        ops.append({"op": "root", "id": "s0", "values": rand_updates(ro, len(gf))})
        ids.append("s0")
        for i in range(nops):
            r = ro.random()
            if r < 0.45 and len(ids) < 40:
                if profile == "deep":
                    parent = ids[-1] if ro.random() < 0.8 else ro.choice(ids)
                elif profile == "wide":
                    parent = ro.choice(ids[: max(1, len(ids) // 2)])
                else:
                    parent = ro.choice(ids[-4:]) if ro.random() < 0.6 else ro.choice(ids)
                nid = f"s{len(ids)}"
                ops.append({"op": "child", "id": nid, "of": parent, "updates": rand_updates(ro, 3)})
                ids.append(nid)
            elif r < 0.46 and grown < 2:
                # the problem goes on being built while states over it are alive: a refused add_fluent (the user type of
                # its parameter is named like an existing fluent) and/or a further fluent with a default value
                if ro.random() < 0.5:
                    ops.append({"op": "grow", "how": "clash", "like": ro.choice(fluents)["name"]})
                tk = ro.choice(["bool", "int", "real"])
                t = {"bool": ["bool"], "int": ["int", 0, 5], "real": ["real", None, None]}[tk]
                dv = ro.choice(values_for(t, objs, tmap))
                name = f"g{grown}"
                grown += 1
                ops.append({"op": "grow", "how": "ok", "name": name, "type": t, "default": dv})
                gf.append(["f", name])
                ftype[name] = t
                fdef[name] = dv
            elif r < 0.485:
                # the states' source of default values (the problem's `fluents_defaults`, code the state calls back
                # into) fails at its n-th access INSIDE one observer or make_child call: the call fails, no state may
                # be damaged.  (Failures at arbitrary instructions are NOT injected: the statement has no failure
                # clause, and the unchanged UPState is not atomic at that granularity either.)
                what = ro.choice(["hash", "hash", "repr", "eq", "child"])
                op = {"op": "interrupted", "what": what, "s": ro.choice(ids[-4:]) if ro.random() < 0.7 else ro.choice(ids),
                      "nth": ro.randint(1, 10)}
                if what == "eq":
                    op["b"] = ro.choice(ids)
                if what == "child":
                    op["updates"] = rand_updates(ro, 3)
                ops.append(op)
            elif r < 0.49:
                # work done on a CLONE of the states' problem (what every compiler does): nothing a state answers may change
                fd = ro.choice(fluents)
                ops.append({"op": "aside", "how": ro.choice(["write_default", "write_default", "add_fluent", "set_init"]),
                            "fluent": fd["name"], "value": ro.choice(values_for(fd["type"], objs, tmap))})
            elif r < 0.55:
                ops.append({"op": "hash", "s": ro.choice(ids)})
            elif r < 0.70:
                ops.append({"op": "eq", "a": ro.choice(ids), "b": ro.choice(ids)})
            elif r < 0.76:
                ops.append({"op": "repr", "s": ro.choice(ids)})
            elif r < 0.82:
                ops.append({"op": "bad_child", "of": ro.choice(ids),
                            "kind": ro.choice(["nonconst", "nonfluent"]),
                            "fluent": ro.choice(gf)})
            elif r < 0.88 and len(ids) < 40:
                nid = f"s{len(ids)}"
                ops.append({"op": "root", "id": nid, "values": rand_updates(ro, len(gf))})
                ids.append(nid)
            else:
                ops.append({"op": "get", "s": ro.choice(ids)})
        return {"engine": self.name, "knobs": {"max_ancestors": knob, "via": via}, "world": world, "ops": ops}

    # ------------------------------------------------------------------ execute
    def execute(self, script, ctx):
        world = script["world"]
        W = World(world)
        p = ProviderProblem("p", W.env)
        defaults = {}
        for fd in world["fluents"]:
            if fd.get("default") is None:
                p.add_fluent(W.fluents[fd["name"]])
            else:
                p.add_fluent(W.fluents[fd["name"]], default_initial_value=W.expr(fd["default"]))
            defaults[fd["name"]] = fd.get("default")
        for o in W.objects.values():
            p.add_object(o)
        gf = ground_fluents(world)
        gfe = [(tuple(map(str, _flat(fe))), fe, W.expr(fe)) for fe in gf]
        knob = script["knobs"]["max_ancestors"]
        via = script["knobs"].get("via", "class_attr")
        saved = UPState.MAX_ANCESTORS
        cls = UPState
        if via == "subclass":
            cls = type("KnobState", (UPState,), {"MAX_ANCESTORS": knob})
        else:
            UPState.MAX_ANCESTORS = knob
        try:
            return self._run(script, ctx, W, p, gfe, defaults, cls, knob, via)
        finally:
            UPState.MAX_ANCESTORS = saved

    def _run(self, script, ctx, W, p, gfe, defaults, cls, knob, via):
        real = {}   # id -> UPState
        model = {}  # id -> dict key -> value descriptor (explicit only)
        depth = {}  # model of the ancestor count, to know when the condensing path runs
        has_child = set()
        saw_condense = saw_default_update = saw_observer_on_parent = False
        eff_knob = knob if via == "class_attr" else None  # children of a subclass state are plain UPStates

        def valuation(sid):
            m = model[sid]
            out = {}
            for key, fe, _ in gfe:
                if key in m:
                    out[key] = _j(m[key])
                elif defaults[fe[1]] is not None:
                    out[key] = _j(defaults[fe[1]])
                else:
                    out[key] = None
            return out

        def check_all(tag):
            for sid in sorted(real):
                st = real[sid]
                val = valuation(sid)
                for key, fe, node in gfe:
                    want = val[key]
                    try:
                        got = _j(list(_r(st.get_value(node))))
                        exc = None
                    except UPStateMissingFluentError:
                        got, exc = None, "missing"
                    except Exception as ex:  # any other exception is wrong as well
                        ctx.fail("C36.get-value", f"{tag}: get_value({sid},{key}) raised {type(ex).__name__}: {ex}",
                                 cls=type(ex).__name__)
                    if want is None:
                        ctx.check("C36.get-value", exc == "missing",
                                  f"{tag}: state {sid} fluent {key}: model has neither value nor default, library returned {got}",
                                  cls="should-raise")
                    else:
                        ctx.check("C36.get-value", got == want,
                                  f"{tag}: state {sid} fluent {key}: model {want}, library {got if exc is None else exc}",
                                  cls="wrong-value")

        for i, op in enumerate(script["ops"]):
            ctx.op_index = i
            ctx.ops += 1
            k = op["op"]
            if k == "root":
                vals = {W.expr(fe): W.expr(v) for fe, v in op["values"]}
                real[op["id"]] = cls(vals, p)
                model[op["id"]] = {tuple(map(str, _flat(fe))): v for fe, v in op["values"]}
                depth[op["id"]] = 0
                ctx.ev(i, "root", op["id"], len(vals))
                ctx.outcome("root", "ok")
            elif k == "child":
                if op["of"] not in real:
                    continue
                ups = {W.expr(fe): W.expr(v) for fe, v in op["updates"]}
                lim_cls = type(real[op["of"]]).MAX_ANCESTORS
                condensing = lim_cls is None or depth[op["of"]] >= lim_cls
                st = real[op["of"]].make_child(ups)
                real[op["id"]] = st
                m = dict(model[op["of"]])
                for fe, v in op["updates"]:
                    m[tuple(map(str, _flat(fe)))] = v
                    if defaults[fe[1]] is not None and _j(defaults[fe[1]]) == _j(v):
                        saw_default_update = True
                        ctx.probe("default-valued-update")
                model[op["id"]] = m
                depth[op["id"]] = 0 if condensing else depth[op["of"]] + 1
                has_child.add(op["of"])
                if condensing:
                    saw_condense = True
                    ctx.probe("condense-path")
                else:
                    ctx.probe("chain-path")
                ctx.ev(i, "child", op["id"], "of", op["of"], len(ups), "condensing" if condensing else "chained")
                ctx.outcome("child", "condense" if condensing else "chain")
            elif k == "interrupted":
                if op["s"] not in real or (op["what"] == "eq" and op.get("b") not in real):
                    continue
                st = real[op["s"]]
                ctx.faults_cfg["callback_raise"] += 1
                ups_ = {W.expr(fe): W.expr(v) for fe, v in op.get("updates", [])} if op["what"] == "child" else None
                p.arm(op.get("nth", 1))
                try:
                    if op["what"] == "hash":
                        hash(st)
                    elif op["what"] == "repr":
                        repr(st)
                    elif op["what"] == "eq":
                        st == real[op["b"]]
                    else:
                        st.make_child(ups_)
                except SimFault:
                    pass
                finally:
                    fired = p.disarm()
                if fired:
                    ctx.faults_fired["callback_raise"] += 1
                    ctx.probe("call-failed-in-defaults-provider:" + op["what"])
                ctx.ev(i, "interrupted", op["what"], op["s"], "fired" if fired else "completed")
                ctx.outcome("interrupted", op["what"] + ("/fired" if fired else "/completed"))
            elif k == "grow":
                if op["how"] == "clash":
                    if op.get("like") not in W.fluents:
                        continue
                    try:
                        p.add_fluent(f"clash_{i}", W.env.type_manager.BoolType(),
                                     d=W.env.type_manager.UserType(op["like"]))
                        ctx.ev(i, "grow", "clash", "accepted")
                    except Exception as ex:
                        ctx.ev(i, "grow", "clash", type(ex).__name__)
                        ctx.probe("refused-add-fluent-on-the-states-problem")
                else:
                    if op["name"] in W.fluents:
                        continue
                    fl = p.add_fluent(op["name"], W.type(op["type"]), default_initial_value=W.expr(op["default"]))
                    W.fluents[op["name"]] = fl
                    fe = ["f", op["name"]]
                    gfe.append((tuple(map(str, _flat(fe))), fe, W.expr(fe)))
                    defaults[op["name"]] = op["default"]
                    ctx.probe("fluent-added-while-states-alive")
                ctx.outcome("grow", op["how"])
            elif k == "aside":
                if op["fluent"] not in W.fluents:
                    continue
                f = W.fluents[op["fluent"]]
                c = p.clone()
                try:
                    if op["how"] == "write_default":
                        # the public property hands out the clone's own map (UndefinedInitialNumericRemover writes to it)
                        c.fluents_defaults[f] = W.expr(op["value"])
                    elif op["how"] == "add_fluent":
                        c.add_fluent("aside_" + str(i), f.type, default_initial_value=W.expr(op["value"]))
                    elif f.arity == 0:
                        c.set_initial_value(f(), W.expr(op["value"]))
                except BuildError:
                    raise
                except Exception as ex:
                    ctx.ev(i, "aside", op["how"], type(ex).__name__)
                ctx.probe("edited-a-clone-of-the-problem")
                ctx.outcome("aside", op["how"])
            elif k in ("hash", "repr"):
                if op["s"] not in real:
                    continue
                st = real[op["s"]]
                if op["s"] in has_child and depth[op["s"]] > 0:
                    saw_observer_on_parent = True
                    ctx.probe("rewriting-observer-on-parent")
                if k == "hash":
                    h1 = hash(st)
                    h2 = hash(st)
                    ctx.check("C36.hash-stable", h1 == h2, f"hash({op['s']}) changed between two calls")
                else:
                    repr(st)
                depth[op["s"]] = 0  # observers condense the receiver
                ctx.ev(i, k, op["s"])
                ctx.outcome(k, "ok")
            elif k == "eq":
                if op["a"] not in real or op["b"] not in real:
                    continue
                a, b = real[op["a"]], real[op["b"]]
                for sid in (op["a"], op["b"]):
                    if sid in has_child and depth[sid] > 0:
                        saw_observer_on_parent = True
                        ctx.probe("rewriting-observer-on-parent")
                got = a == b
                want = valuation(op["a"]) == valuation(op["b"])
                depth[op["a"]] = depth[op["b"]] = 0
                ctx.check("C36.eq-iff-same-valuation", got == want,
                          f"{op['a']} == {op['b']} is {got}, valuations equal is {want}: "
                          f"{valuation(op['a'])} vs {valuation(op['b'])}", cls=f"eq-{got}")
                if want:
                    ctx.check("C36.eq-implies-hash", hash(a) == hash(b),
                              f"{op['a']} and {op['b']} have the same valuation but different hashes")
                    ctx.probe("eq-true")
                ctx.ev(i, "eq", op["a"], op["b"], got)
                ctx.outcome("eq", str(got))
            elif k == "get":
                if op["s"] not in real:
                    continue
                ctx.ev(i, "get", op["s"], sorted((k_, str(v)) for k_, v in valuation(op["s"]).items()))
                ctx.outcome("get", "ok")
            elif k == "bad_child":
                if op["of"] not in real:
                    continue
                fe = W.expr(op["fluent"])
                if op["kind"] == "nonconst":
                    ups = {fe: fe}
                else:
                    ups = {W.em.Int(3): W.em.Int(3)}
                try:
                    real[op["of"]].make_child(ups)
                    out = "accepted"
                except UPValueError:
                    out = "rejected"
                except Exception as ex:
                    # C36 does not say how a malformed update is refused; any
                    # exception counts as a refusal, what matters is that no state changes
                    out = "rejected-" + type(ex).__name__
                ctx.probe("update-" + out)
                ctx.ev(i, "bad_child", op["of"], op["kind"], out)
                ctx.outcome("bad_child", out)
            else:
                raise BuildError(f"unknown op {k}")
            check_all(f"after op {i} ({k})")
            ctx.states.add(digest(sorted((sid, sorted((k_, str(v)) for k_, v in valuation(sid).items()))
                                         for sid in model)))
        # end of run: pairwise equality / hash over all states
        ctx.op_index = len(script["ops"])
        ids = sorted(real)
        for x in range(len(ids)):
            for y in range(x, len(ids)):
                a, b = ids[x], ids[y]
                want = valuation(a) == valuation(b)
                got = real[a] == real[b]
                ctx.check("C36.eq-iff-same-valuation", got == want,
                          f"final: {a} == {b} is {got}, valuations equal is {want}", cls=f"eq-{got}")
                if want:
                    ctx.check("C36.eq-implies-hash", hash(real[a]) == hash(real[b]),
                              f"final: {a}, {b} equal valuations, different hashes")
        check_all("final")
        return saw_condense and saw_default_update and saw_observer_on_parent


def _flat(e):
    for x in e:
        if isinstance(x, list):
            yield from _flat(x)
        else:
            yield x


def _r(node):
    return render(node)


def _j(v):
    """Normalise a value descriptor / rendering to a comparable tuple."""
    if isinstance(v, (list, tuple)):
        return tuple(_j(x) for x in v)
    return v
