"""C25 -- DeltaSimpleTemporalNetwork under insertion / copy histories (engine `stnhist`).

Real code: unified_planning.model.delta_stn.DeltaSimpleTemporalNetwork.
Reference model: per replica the list of inserted difference constraints; consistency and
the least non-negative solution by Bellman-Ford.
The statement has no failure clause: the only "fault" is the natural one (the network
becoming inconsistent, after which insertions are ignored).  What the simulator owns is the
order of insertions and copies over several replicas that share list cells.
"""
from fractions import Fraction

from ..core import Engine, stream, BuildError, digest

from unified_planning.model.delta_stn import DeltaSimpleTemporalNetwork


def event_objects(names, how):
    """The hashable objects standing for the events.  `plan_node`: the library's own event type (STNPlanNode, what
    STNPlan feeds to the network), with TWINS: distinct ActionInstances of one ground action are distinct events."""
    if how == "int":
        return {n: i for i, n in enumerate(names)}
    if how == "tuple":
        return {n: (n, i % 2) for i, n in enumerate(names)}
    if how == "plan_node":
        from unified_planning.environment import Environment
        from unified_planning.model import InstantaneousAction
        from unified_planning.model.timing import TimepointKind
        from unified_planning.plans import ActionInstance
        from unified_planning.plans.stn_plan import STNPlanNode
        env = Environment()
        acts = [InstantaneousAction("a", _env=env), InstantaneousAction("b", _env=env)]
        out = {}
        for i, n in enumerate(names):
            kind = TimepointKind.START if i % 2 == 0 else TimepointKind.END
            out[n] = STNPlanNode(kind, ActionInstance(acts[(i // 2) % 2 if i >= 4 else 0]))
        return out
    return {n: n for n in names}


def num(x):
    return x if isinstance(x, int) else Fraction(x)


def bellman_ford(events, cons):
    """cons: list of (x, y, b) meaning x - y <= b.  Returns dict event -> least non-negative
    time, or None if the constraints have no solution."""
    d = {e: Fraction(0) for e in events}
    for _ in range(len(events) + 1):
        changed = False
        for x, y, b in cons:
            if d[x] + b < d[y]:
                d[y] = d[x] + b
                changed = True
        if not changed:
            return {e: -v for e, v in d.items()}
    return None


class StnHist(Engine):
    name = "stnhist"
    props = ("C25",)
    nruns = {"quick": 20000, "thorough": 3000000}
    budgets = {"quick": 30.0, "thorough": 540.0}
    rule = (
        "script = 5-40 operations add(x, y, b) / insert_interval / copy_stn on up to 5 replicas over 2-5 events (profile cascade: a layered precedence network over 8-14 events inserted sink side first, then makespan upper bounds; profile longlist: one event whose list of outgoing constraints grows to 10-40 entries by repeated tightenings, 1-2 copies sharing the list cells, the sides tightened alternately, loose bounds looked up far down the list, the event lowered; events are strings, ints, tuples or STNPlanNode objects with twin action instances), bounds "
        "small integers or rationals with denominator <= 3 (epsilon 0), biased toward tightening an existing edge, closing a "
        "cycle of weight -1/0/+1, and operating on a copy right after copying. After EVERY operation, on EVERY replica: "
        "check_stn == reference consistency, and while consistent get_stn_model(e) == least non-negative solution for "
        "every event and every inserted constraint holds in the reported model; an inconsistent replica stays so. "
        "non-trivial = (>= 1 copy followed by insertions on both sides) AND (>= 1 replica became inconsistent OR >= 1 "
        "subsumed insertion), OR one insertion moved >= 5 events; distinct = digest of the (operation kind, outcome class) sequence"
    )
    real_components = ("DeltaSimpleTemporalNetwork (add, insert_interval, copy_stn, check_stn, get_stn_model)",)
    stub_components = ()
    assumptions = ("epsilon = 0; bounds are exact rationals",)

    def profiles(self, tier):
        return ["mixed", "cycles", "copies", "cascade", "longlist"]

    def generate_longlist(self, seed, tier="quick"):
        """Round 8 (scale): ONE event with a long list of outgoing constraints.  Entries are only ever prepended, so
        repeated tightenings of x - y <= b for several y make the list of x 10-40 entries long; the list cells are
        shared between a network and its copies.  After 1-2 copies the sides tighten different x - y bounds
        alternately, re-insert loose bounds (look-ups that walk far down the list) and lower x (y - x <= w closing a
        cycle of weight 0-2, so that everything hanging off x is propagated again)."""
        r = stream(seed, "longlist")
        nev = r.randint(4, 12)
        events = [f"e{i}" for i in range(nev)]
        x, others = events[0], events[1:]
        nets = ["N0"]
        cur = {"N0": {}}
        ops = []

        def tighten(n, y, by):
            b = cur[n].get(y, r.randint(8, 30)) - by
            cur[n][y] = b
            ops.append({"op": "add", "n": n, "x": x, "y": y, "b": b})
        for _ in range(r.randint(4, 16)):
            tighten("N0", r.choice(others), r.randint(0, 2))
        for i in range(r.randint(10, 40)):
            n = r.choice(nets[-2:]) if r.random() < 0.7 else r.choice(nets)
            q = r.random()
            if (i == 0 or q < 0.06) and len(nets) < 3:
                nid = f"N{len(nets)}"
                ops.append({"op": "copy", "of": n, "id": nid})
                nets.append(nid)
                cur[nid] = dict(cur[n])
            elif q < 0.55:
                tighten(n, r.choice(others), r.randint(1, 2))
            elif q < 0.75:
                # a loose bound: subsumed, but the look-up walks the list as far as the entry for y
                y = r.choice(others)
                ops.append({"op": "add", "n": n, "x": x, "y": y, "b": cur[n].get(y, 30) + r.randint(0, 5)})
                cur[n].setdefault(y, 30)
            elif q < 0.9 and cur[n]:
                y = r.choice(sorted(cur[n]))
                ops.append({"op": "add", "n": n, "x": y, "y": x, "b": -cur[n][y] + r.choice([0, 0, 1, 2])})
            else:
                a, b_ = r.sample(others, 2) if len(others) >= 2 else (others[0], x)
                ops.append({"op": "add", "n": n, "x": a, "y": b_, "b": r.randint(-3, 6)})
        return {"engine": self.name, "events": events, "events_as": r.choice(["str", "int", "plan_node"]), "ops": ops}

    def generate_cascade(self, seed, tier="quick"):
        """Layered precedence network over 8-14 events inserted sink side first, so that each insertion near the
        sources shifts a large part of the network and the propagation queue holds the same event several times
        (the same successor is improved first over a short path, then over a longer one)."""
        r = stream(seed, "cascade")
        nev = r.randint(8, 14) if tier != "thorough" or r.random() < 0.6 else r.randint(15, 24)
        events = [f"e{i}" for i in range(nev)]
        p = r.choice([0.35, 0.5, 0.7, 0.9])
        edges = []
        if r.random() < 0.5:
            for i in range(nev):
                for j in range(i + 1, nev):
                    if r.random() < p or j == i + 1:
                        edges.append((i, j, -r.randint(1, 30)))
            # sources last; within one source the order of successors is free
            r.shuffle(edges)
            edges.sort(key=lambda e: -e[0])
        else:
            # fan: e0 -> e1 (hub) -> every other event, cross edges among the successors inserted first in any
            # order, the hub's edges next in any order, the edge that shifts the hub last
            wh, wc = r.choice([(3, 30), (30, 30), (3, 3)])
            for i in range(2, nev):
                for j in range(i + 1, nev):
                    if r.random() < p:
                        edges.append((i, j, -r.randint(1, wc)))
            r.shuffle(edges)
            hub = [(1, j, -r.randint(1, wh)) for j in range(2, nev)]
            r.shuffle(hub)
            edges += hub + [(0, 1, -r.randint(1, 100))]
        if r.random() < 0.3:
            k = r.randrange(len(edges))
            edges.insert(r.randrange(len(edges)), edges.pop(k))
        ops = []
        nets = ["N0"]
        for (i, j, w) in edges:
            if r.random() < 0.04 and len(nets) < 3:
                ops.append({"op": "copy", "of": nets[-1], "id": f"N{len(nets)}"})
                nets.append(f"N{len(nets)}")
            ops.append({"op": "add", "n": r.choice(nets[-2:]), "x": events[i], "y": events[j], "b": w})
        # back edges: upper bounds on the makespan, some of them impossible
        for _ in range(r.randint(1, 4)):
            i, j = sorted(r.sample(range(nev), 2))
            ops.append({"op": "add", "n": r.choice(nets), "x": events[j], "y": events[i],
                        "b": r.randint(5, 30 * (j - i))})
        return {"engine": self.name, "events": events, "events_as": r.choice(["str", "str", "int", "plan_node"]), "ops": ops}

    def generate(self, seed, profile, tier):
        if profile == "cascade":
            return self.generate_cascade(seed, tier)
        if profile == "longlist":
            return self.generate_longlist(seed, tier)
        r = stream(seed, "ops")
        nev = r.randint(2, 5)
        events = [f"e{i}" for i in range(nev)]
        nets = ["N0"]
        edges = {"N0": {}}   # net -> {(x,y): bound} as the generator's own view, for biasing only
        ops = []

        def bound():
            if profile != "cycles" and r.random() < 0.25:
                return str(Fraction(r.randint(-9, 15), r.choice([2, 3])))
            return r.randint(-4, 6)

        nops = r.randint(5, 40) * (stream(seed, "size").choice([1, 1, 1, 2, 3]) if tier == "thorough" else 1)
        for i in range(nops):
            x = r.random()
            n = r.choice(nets[-2:]) if r.random() < 0.6 else r.choice(nets)
            if x < (0.2 if profile == "copies" else 0.08) and len(nets) < 5:
                nid = f"N{len(nets)}"
                ops.append({"op": "copy", "of": n, "id": nid})
                nets.append(nid)
                edges[nid] = dict(edges[n])
                # operate on both sides right after copying
                for side in (nid, n):
                    a, b_ = r.sample(events, 2)
                    bb = bound()
                    ops.append({"op": "add", "n": side, "x": a, "y": b_, "b": bb})
                    edges[side][(a, b_)] = bb
                continue
            e = edges[n]
            if x < 0.35 and e:
                # tighten or loosen an existing edge (subsumption path)
                (a, b_), old = r.choice(sorted(e.items(), key=str))
                delta = r.choice([-2, -1, 0, 1])
                bb = num(old) + delta
                bb = str(bb) if isinstance(bb, Fraction) and bb.denominator != 1 else int(bb)
                ops.append({"op": "add", "n": n, "x": a, "y": b_, "b": bb})
                e[(a, b_)] = bb
            elif x < 0.6 and e:
                # close a cycle: add y -> x with weight making the 2-cycle -1 / 0 / +1
                (a, b_), old = r.choice(sorted(e.items(), key=str))
                w = -num(old) + r.choice([-1, 0, 1])
                w = str(w) if isinstance(w, Fraction) and w.denominator != 1 else int(w)
                ops.append({"op": "add", "n": n, "x": b_, "y": a, "b": w})
                e[(b_, a)] = w
            elif x < 0.75:
                a, b_ = r.sample(events, 2)
                lb = bound() if r.random() < 0.8 else None
                ub = bound() if r.random() < 0.8 else None
                if lb is not None and ub is not None and num(ub) < num(lb) and r.random() < 0.7:
                    lb, ub = ub, lb
                ops.append({"op": "interval", "n": n, "l": a, "r": b_, "lb": lb, "ub": ub})
                if lb is not None:
                    e[(a, b_)] = (-num(lb)) if isinstance(lb, int) else str(-num(lb))
                if ub is not None:
                    e[(b_, a)] = ub
            else:
                a, b_ = r.sample(events, 2) if r.random() < 0.95 else (events[0], events[0])
                bb = bound()
                ops.append({"op": "add", "n": n, "x": a, "y": b_, "b": bb})
                e[(a, b_)] = bb
        return {"engine": self.name, "events": events, "events_as": r.choice(["str", "int", "tuple", "plan_node", "plan_node"]),
                "ops": ops}

    def execute(self, script, ctx):
        real = {"N0": DeltaSimpleTemporalNetwork()}
        E = event_objects(script["events"], script.get("events_as", "str"))
        for op in script["ops"]:
            # dangling event names (a minimised script): the event simply is its name
            for key in ("x", "y", "l", "r"):
                if key in op and op[key] not in E:
                    E[op[key]] = op[key]
        cons = {"N0": []}        # net -> list of (x, y, b)
        seen = {"N0": set()}     # events known to the net
        dead = {"N0": False}     # has been inconsistent
        copied = {}              # net -> set of nets it was copied to/from, with later adds
        touched_after_copy = set()
        subsumed = became_inconsistent = cascade = False
        pairs = []
        def call(what, fn, *a, **kw):
            try:
                return fn(*a, **kw)
            except Exception as ex:
                ctx.fail("C25.answers", f"{what} raised {type(ex).__name__}: {str(ex)[:200]}", cls=type(ex).__name__)

        for i, op in enumerate(script["ops"]):
            ctx.op_index = i
            ctx.ops += 1
            k = op["op"]
            if k == "copy":
                if op["of"] not in real:
                    continue
                real[op["id"]] = call(f"op {i}: copy_stn", real[op["of"]].copy_stn)
                cons[op["id"]] = list(cons[op["of"]])
                seen[op["id"]] = set(seen[op["of"]])
                dead[op["id"]] = dead[op["of"]]
                pairs.append((op["of"], op["id"]))
                ctx.ev(i, "copy", op["of"], op["id"])
                ctx.outcome("copy", "ok")
            elif k == "add":
                if op["n"] not in real:
                    continue
                n = op["n"]
                b = num(op["b"])
                was = real[n].check_stn()
                if was:
                    # the reference records the constraint only while the network accepts insertions
                    old = [c for c in cons[n] if c[0] == op["x"] and c[1] == op["y"]]
                    if old and min(c[2] for c in old) <= b:
                        subsumed = True
                        ctx.probe("subsumed-insertion")
                    cons[n].append((op["x"], op["y"], b))
                    seen[n].update((op["x"], op["y"]))
                before = dict(real[n].distances)
                call(f"op {i}: add({op['x']}, {op['y']}, {b}) on {n}", real[n].add, E[op["x"]], E[op["y"]], b)
                moved = sum(1 for e_, v_ in real[n].distances.items() if before.get(e_, 0) != v_)
                if moved >= 5:
                    cascade = True
                    ctx.probe("insertion-moved>=5-events")
                touched_after_copy.add(n)
                ctx.ev(i, "add", n, op["x"], op["y"], b, real[n].check_stn())
                ctx.outcome("add", str(real[n].check_stn()))
            elif k == "interval":
                if op["n"] not in real:
                    continue
                n = op["n"]
                lb = None if op["lb"] is None else num(op["lb"])
                ub = None if op["ub"] is None else num(op["ub"])
                # insert_interval = add(l, r, -lb) then add(r, l, ub), each only while consistent
                st = real[n]
                pre = st.check_stn()
                call(f"op {i}: insert_interval({op['l']}, {op['r']}, {lb}, {ub}) on {n}", st.insert_interval,
                     E[op["l"]], E[op["r"]], left_bound=lb, right_bound=ub)
                if pre:
                    if lb is not None:
                        cons[n].append((op["l"], op["r"], -lb))
                        seen[n].update((op["l"], op["r"]))
                        if bellman_ford(seen[n], cons[n]) is not None and ub is not None:
                            cons[n].append((op["r"], op["l"], ub))
                    elif ub is not None:
                        cons[n].append((op["r"], op["l"], ub))
                        seen[n].update((op["l"], op["r"]))
                    else:
                        seen[n].update((op["l"], op["r"]))
                touched_after_copy.add(n)
                ctx.ev(i, "interval", n, op["l"], op["r"], lb, ub, st.check_stn())
                ctx.outcome("interval", str(st.check_stn()))
            else:
                raise BuildError(k)
            # ---- every replica, after every operation
            for n in sorted(real):
                ref = bellman_ford(seen[n], cons[n])
                got = real[n].check_stn()
                ctx.check("C25.consistency", got == (ref is not None),
                          f"after op {i}: network {n} reports consistent={got}, the constraints {cons[n]} are "
                          f"{'satisfiable' if ref is not None else 'unsatisfiable'}", cls=f"reports-{got}")
                if dead[n]:
                    ctx.check("C25.stays-inconsistent", not got, f"after op {i}: network {n} became consistent again",
                              cls="resurrected")
                if not got:
                    if not dead[n]:
                        became_inconsistent = True
                        ctx.probe("became-inconsistent")
                    dead[n] = True
                    continue
                for e in sorted(seen[n]):
                    try:
                        t = real[n].get_stn_model(E[e])
                    except KeyError:
                        ctx.fail("C25.model", f"after op {i}: network {n} has no model value for event {e}", cls="missing-event")
                    ctx.check("C25.model", Fraction(t) == ref[e],
                              f"after op {i}: network {n} reports {e} at {t}, the least non-negative solution of {cons[n]} "
                              f"puts it at {ref[e]}", cls="wrong-time")
                for x, y, b in cons[n]:
                    tx = Fraction(call(f"after op {i}: get_stn_model({x}) on {n}", real[n].get_stn_model, E[x]))
                    ty = Fraction(call(f"after op {i}: get_stn_model({y}) on {n}", real[n].get_stn_model, E[y]))
                    ctx.check("C25.model-satisfies", tx - ty <= b,
                              f"after op {i}: network {n}: reported model violates {x} - {y} <= {b} ({tx} - {ty})",
                              cls="violated-constraint")
            ctx.states.add(digest(sorted((n, sorted(map(str, c))) for n, c in cons.items())))
        both = any(a in touched_after_copy and b in touched_after_copy for a, b in pairs)
        return (both and (became_inconsistent or subsumed)) or cascade
