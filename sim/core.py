"""Core of the deterministic simulator: seeds, labelled PRNG streams, event log,
run context, oracle bookkeeping.  Nothing in here imports the library under test.

One integer decides everything: run r of a batch uses run_seed(batch, r); every
choice of the generator comes from stream(seed, label).  Execution never draws.
"""
import hashlib
import json
import os
import random
from collections import Counter

DEFAULT_SEED = 20260921


def batch_seed():
    return int(os.environ.get("VERIF_SEED", DEFAULT_SEED))


def run_seed(batch, r):
    return batch * 1_000_003 + r


def stream(seed, label):
    h = hashlib.sha256(f"{seed}/{label}".encode()).digest()
    return random.Random(int.from_bytes(h[:16], "big"))


def digest(obj):
    if not isinstance(obj, (str, bytes)):
        obj = json.dumps(obj, sort_keys=True, default=str)
    if isinstance(obj, str):
        obj = obj.encode()
    return hashlib.sha256(obj).hexdigest()[:16]


class HarnessError(Exception):
    """The harness itself is wrong or was handed a script it cannot run."""


class BuildError(HarnessError):
    """A script cannot be built (dangling reference after shrinking, ...)."""


class SimFault(Exception):
    """Injected failure of a user callback (interpreted function, simulated effect)."""


class SimCancel(BaseException):
    """Injected asynchronous cancellation (the kind of KeyboardInterrupt / CancelledError / SystemExit): not an
    Exception, so `except Exception` clean-up code in the library does not see it, `finally` does."""


class StopRun(Exception):
    """Raised by Ctx.violate to end the run at the first violated oracle."""


class Ctx:
    """Per-run execution context: event log, probes, fault counters, violation."""

    def __init__(self, prop):
        self.prop = prop
        self.log = []
        self.probes = Counter()
        self.faults_cfg = Counter()
        self.faults_fired = Counter()
        self.ops = 0
        self.judged = 0
        self.skipped = 0
        self.violation = None
        self.other_prop = Counter()
        self.shape = []  # (op kind, outcome class) sequence
        self.states = set()
        self.op_index = -1
        self.sim_time = 0.0

    # -- logging (never draws, never reads a clock)
    def ev(self, *parts):
        self.log.append(" ".join(str(p) for p in parts))

    def probe(self, name, n=1):
        self.probes[name] += n

    def outcome(self, kind, cls):
        self.shape.append(f"{kind}:{cls}")

    # -- oracles
    def check(self, oracle, cond, detail="", cls="mismatch"):
        """Evaluate one oracle.  oracle is '<prop>.<name>'."""
        self.judged += 1
        if cond:
            return True
        self.fail(oracle, detail, cls)
        return False

    def fail(self, oracle, detail="", cls="mismatch"):
        prop = oracle.split(".", 1)[0]
        if prop != self.prop:
            # an oracle of a sibling property served by the same engine: counted,
            # never reported by this check
            self.other_prop[oracle] += 1
            return
        self.violation = {
            "oracle": oracle,
            "op": self.op_index,
            "cls": cls,
            "detail": str(detail)[:600],
        }
        self.ev("VIOLATION", oracle, cls)
        raise StopRun()

    def digest(self):
        return digest("\n".join(self.log))

    def result(self, nontrivial):
        return {
            "digest": self.digest(),
            "violation": self.violation,
            "ops": self.ops,
            "judged": self.judged,
            "skipped": self.skipped,
            "probes": dict(self.probes),
            "faults_cfg": dict(self.faults_cfg),
            "faults_fired": dict(self.faults_fired),
            "other_prop": dict(self.other_prop),
            "shape": digest("|".join(self.shape)),
            "nontrivial": bool(nontrivial),
            "states": sorted(self.states),
            "sim_time": self.sim_time,
            "nlog": len(self.log),
        }


def sig_class(v):
    """Signature class used while minimising: oracle + class, not the position."""
    return (v["oracle"], v["cls"]) if v else None


def sig_full(v):
    return (v["oracle"], v["cls"], v["op"], v["detail"]) if v else None


class Engine:
    """Interface of an engine.  An engine instance is bound to one property."""

    name = "?"
    props = ()
    level = "exploration"
    rule = ""
    real_components = ()
    stub_components = ()
    assumptions = ()

    def __init__(self, prop):
        assert prop in self.props, (prop, self.props)
        self.prop = prop

    def profiles(self, tier):
        return ["default"]

    def generate(self, seed, profile, tier):
        raise NotImplementedError

    def execute(self, script, ctx):
        """Run the script against the real library; returns nontrivial flag."""
        raise NotImplementedError

    budgets = {}  # tier -> wall-clock budget in seconds (truncates the batch)
    nruns = {"quick": 4000, "thorough": 200000}

    def level_for(self, tier):
        return self.level

    def warmup_scripts(self):
        """Fixed scripts executed (and discarded) before anything else in every
        process, so that lazily initialised code paths do not perturb the first run."""
        return [self.generate(s, p, "quick") | {"seed": s, "profile": p}
                for p in sorted(set(self.profiles("quick"))) for s in (1, 2)]

    def expand(self, script, tier):
        """Thorough tiers may turn one script into many (fault enumeration)."""
        return None
