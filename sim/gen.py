"""Seeded generators of world descriptors and typed expression descriptors.
Pure functions of the random.Random streams they are handed; no library import."""


def subtype_of(tmap, t, anc):
    while t is not None:
        if t == anc:
            return True
        t = tmap.get(t)
    return False


class ExprGen:
    """Typed expression grammar over one world descriptor."""

    def __init__(self, rng, world, params=(), quant=True, ifuns=True, div=True, arith=True,
                 const_range=(-2, 5), var_prefix="v"):
        self.rng = rng
        self.world = world
        self.tmap = dict(world.get("types", []))
        self.objs = world.get("objects", [])
        self.fluents = world.get("fluents", [])
        self.ifuns = world.get("ifuns", []) if ifuns else []
        self.params = list(params)  # (name, type descriptor)
        self.vars = []  # bound variables in scope: (name, type descriptor)
        self.quant = quant
        self.div = div
        self.arith = arith
        self.const_range = const_range
        self.var_prefix = var_prefix
        self.nvar = 0

    # -- helpers
    def objects_of(self, tname):
        return [o for o, ot in self.objs if subtype_of(self.tmap, ot, tname)]

    def user_types(self):
        return [n for n, _ in self.world.get("types", [])]

    def fl(self, kind):
        if kind == "bool":
            return [f for f in self.fluents if f["type"][0] == "bool"]
        if kind == "num":
            return [f for f in self.fluents if f["type"][0] in ("int", "real")]
        return [f for f in self.fluents if f["type"][0] == "user" and subtype_of(self.tmap, f["type"][1], kind[1])]

    def ifn(self, kind):
        if kind == "bool":
            return [f for f in self.ifuns if f["ret"][0] == "bool"]
        if kind == "num":
            return [f for f in self.ifuns if f["ret"][0] in ("int", "real")]
        return []

    def arg_for(self, t, d):
        if t[0] == "user":
            return self.obj_expr(t[1], d)
        if t[0] == "bool":
            return self.bool_expr(d)
        return self.num_expr(d, int_only=(t[0] == "int"))

    def fluent_app(self, fd, d=0):
        return ["f", fd["name"]] + [self.arg_for(pt, d) for _, pt in fd.get("params", [])]

    def ifun_app(self, fd, d=0):
        return ["if", fd["name"]] + [self.arg_for(pt, d) for pt in fd["params"]]

    def can_obj(self, tname):
        return bool(self.objects_of(tname))

    # -- object-valued expressions of type <= tname
    def obj_expr(self, tname, d=0):
        r = self.rng
        cands = []
        objs = self.objects_of(tname)
        if objs:
            cands += [("o", 3)]
        ps = [n for n, t in self.params if t[0] == "user" and subtype_of(self.tmap, t[1], tname)]
        if ps:
            cands += [("p", 3)]
        vs = [(n, t) for n, t in self.vars if subtype_of(self.tmap, t[1], tname)]
        if vs:
            cands += [("v", 5)]
        fls = [f for f in self.fl(("user", tname))
               if all(pt[0] != "user" or self.can_obj(pt[1]) for _, pt in f.get("params", []))]
        if fls and d > 0:
            cands += [("f", 2)]
        if not cands:
            raise ValueError(f"no expression of type {tname}")
        k = _wchoice(r, cands)
        if k == "o":
            return ["o", r.choice(objs)]
        if k == "p":
            return ["p", r.choice(ps)]
        if k == "v":
            n, t = r.choice(vs)
            return ["v", n, t]
        return self.fluent_app(r.choice(fls), d - 1)

    def num_const(self, int_only=False):
        r = self.rng
        if int_only or r.random() < 0.8:
            return ["int", r.randint(*self.const_range)]
        return ["real", r.choice(["1/2", "3/2", "-1/3", "5/2", "2/3"])]

    def num_expr(self, d=1, int_only=False):
        r = self.rng
        fls = [f for f in self.fl("num")
               if all(pt[0] != "user" or self.can_obj(pt[1]) for _, pt in f.get("params", []))]
        ifs = self.ifn("num")
        if int_only:
            fls = [f for f in fls if f["type"][0] == "int"]
            ifs = [f for f in ifs if f["ret"][0] == "int"]
        if d <= 0 or not self.arith and r.random() < 0.7:
            c = [("c", 3)]
            if fls:
                c.append(("f", 5))
            if ifs:
                c.append(("if", 1))
            k = _wchoice(r, c)
            if k == "c":
                return self.num_const(int_only)
            if k == "f":
                return self.fluent_app(r.choice(fls), 0)
            return self.ifun_app(r.choice(ifs), 0)
        c = [("plus", 3), ("minus", 3), ("times", 2), ("leaf", 3)]
        if self.div and not int_only:
            c.append(("div", 1))
        if ifs:
            c.append(("if", 1))
        k = _wchoice(r, c)
        if k == "leaf":
            return self.num_expr(0, int_only)
        if k == "plus":
            return ["plus"] + [self.num_expr(d - 1, int_only) for _ in range(r.randint(2, 3))]
        if k == "minus":
            return ["minus", self.num_expr(d - 1, int_only), self.num_expr(d - 1, int_only)]
        if k == "times":
            a = self.num_expr(d - 1, int_only)
            b = self.num_const(int_only) if r.random() < 0.7 else self.num_expr(d - 1, int_only)
            return ["times", a, b] if r.random() < 0.5 else ["times", b, a]
        if k == "div":
            den = r.choice([["int", 2], ["int", -1], ["real", "1/2"], ["int", 3]])
            return ["div", self.num_expr(d - 1, int_only), den]
        return self.ifun_app(r.choice(ifs), d - 1)

    def bool_atom(self, d=0):
        r = self.rng
        fls = [f for f in self.fl("bool")
               if all(pt[0] != "user" or self.can_obj(pt[1]) for _, pt in f.get("params", []))]
        ifs = self.ifn("bool")
        c = [("const", 1), ("cmp", 4)]
        if fls:
            c.append(("f", 8))
        if ifs:
            c.append(("if", 1))
        uts = [t for t in self.user_types() if self.can_obj(t)]
        if uts:
            c.append(("oeq", 3))
        k = _wchoice(r, c)
        if k == "const":
            return ["bool", r.random() < 0.5]
        if k == "f":
            return self.fluent_app(r.choice(fls), d)
        if k == "if":
            return self.ifun_app(r.choice(ifs), d)
        if k == "oeq":
            t = r.choice(uts)
            return ["eq", self.obj_expr(t, d + 1), self.obj_expr(t, d + 1)]
        op = r.choice(["le", "lt", "eq", "ge", "gt"])
        return [op, self.num_expr(d), self.num_expr(d)]

    def bool_expr(self, d=2):
        r = self.rng
        if d <= 0:
            return self.bool_atom(0)
        c = [("and", 4), ("or", 4), ("not", 3), ("implies", 1), ("iff", 1), ("atom", 4)]
        uts = [t for t in self.user_types() if self.can_obj(t)]
        if self.quant and uts:
            c += [("exists", 2), ("forall", 2)]
        k = _wchoice(r, c)
        if k == "atom":
            return self.bool_atom(min(d, 1))
        if k in ("and", "or"):
            return [k] + [self.bool_expr(d - 1) for _ in range(r.randint(2, 3))]
        if k == "not":
            return ["not", self.bool_expr(d - 1)]
        if k in ("implies", "iff"):
            return [k, self.bool_expr(d - 1), self.bool_expr(d - 1)]
        t = r.choice(uts)
        self.nvar += 1
        name = f"{self.var_prefix}{self.nvar}"
        self.vars.append((name, ["user", t]))
        try:
            body = self.bool_expr(d - 1)
            if k == "exists" and r.random() < 0.4:
                # `exists v. (... and v == value)`: the shape the simplifier eliminates v from;
                # the value may be of a supertype of v's type and may itself mention v
                sup = [x for x in self.user_types() if subtype_of(self.tmap, t, x) and self.can_obj(x)]
                try:
                    val = self.obj_expr(r.choice(sup), 1)
                    v = ["v", name, ["user", t]]
                    # half of the time, if some object-valued fluent takes an argument of v's type,
                    # make the value mention v itself: v == g(v)
                    selfref = [f for f in self.fluents if f["type"][0] == "user" and len(f.get("params", [])) == 1
                               and subtype_of(self.tmap, t, f["params"][0][1][1])
                               and subtype_of(self.tmap, f["type"][1], t)]
                    if selfref and r.random() < 0.7:
                        val = ["f", r.choice(selfref)["name"], v]
                    eq = ["eq", v, val] if r.random() < 0.5 else ["eq", val, v]
                    body = ["and", body, eq] if r.random() < 0.7 else ["and", eq, body]
                except (ValueError, IndexError):
                    pass
        finally:
            self.vars.pop()
        return [k, [[name, ["user", t]]], body]


def _wchoice(r, cands):
    tot = sum(w for _, w in cands)
    x = r.random() * tot
    for k, w in cands:
        x -= w
        if x <= 0:
            return k
    return cands[-1][0]


def gen_types(rng, allow_sub=True):
    types = [["T", None]]
    objs = [["o0", "T"], ["o1", "T"]]
    if allow_sub and rng.random() < 0.7:
        types.append(["S", "T"])
        objs.append(["s0", "S"])
        if rng.random() < 0.4:
            objs.append(["s1", "S"])
    if rng.random() < 0.3:
        types.append(["U", None])
        objs.append(["u0", "U"])
    return types, objs


FLUENT_TYPES = {
    "bool": ["bool"],
    "int": ["int", 0, 5],
    "uint": ["int", None, None],
    "real": ["real", None, None],
    "breal": ["real", "0", "4"],
    "fbreal": ["real", "1/2", "5/2"],
    "ubint": ["int", None, 3],      # bounded on one side only
    "lbint": ["int", 1, None],
    "ubreal": ["real", None, "5/2"],
}


def gen_fluents(rng, types, n, kinds=("bool", "bool", "int", "real", "user", "uint"), prefix="f", max_params=1):
    fluents = []
    tnames = [t for t, _ in types]
    for i in range(n):
        k = rng.choice(kinds)
        t = FLUENT_TYPES[k] if k != "user" else ["user", rng.choice(tnames)]
        fd = {"name": f"{prefix}{i}", "type": list(t), "params": []}
        np_ = 0
        if max_params and rng.random() < 0.4:
            np_ = rng.randint(1, max_params)
        fd["params"] = [[f"x{j}", ["user", rng.choice(tnames)]] for j in range(np_)]
        fluents.append(fd)
    return fluents


def values_of(t, objs, tmap):
    k = t[0]
    if k == "bool":
        return [["bool", True], ["bool", False]]
    if k == "int":
        lo = 0 if t[1] is None else t[1]
        hi = lo + 5 if t[2] is None else t[2]
        return [["int", i] for i in range(lo, hi + 1)]
    if k == "real":
        from fractions import Fraction as _F
        vals = [["int", 0], ["real", "1/2"], ["int", 1], ["real", "3/2"], ["int", 2], ["int", 3]]
        return [v for v in vals if (t[1] is None or _F(v[1]) >= _F(t[1])) and (t[2] is None or _F(v[1]) <= _F(t[2]))]
    if k == "user":
        return [["o", o] for o, ot in objs if subtype_of(tmap, ot, t[1])]
    raise ValueError(t)
