"""Reference interpreter of the documented sequential semantics (C01), working on
world descriptors only.  It never imports the library.

State: dict  ground-fluent key -> python value (bool | Fraction | object name);
a key that is absent is UNDEFINED.  Ground-fluent key: (name, arg object names...).

Clauses implemented -- exactly those of the C01 statement:
 * conditions, effect conditions and effect values are evaluated in the pre-state;
 * forall effects range over all objects of the variable types (and subtypes);
 * a Boolean fluent assigned both values ends true;
 * two different values for a numeric or object fluent => inapplicable;
 * increases and decreases of one fluent accumulate;
 * bounded numeric types and state invariants must hold in the successor;
 * a condition / invariant / goal that reads a fluent with no value is not satisfied.
Where the statement does not determine the answer the interpreter says AMBIGUOUS
(the step is then counted, not judged).
"""
from fractions import Fraction
from itertools import product

UNDEF = "UNDEF"


class Ambiguous(Exception):
    pass


class Undefined(Exception):
    """A fluent with no value was read (strict evaluation)."""


def subtype_of(tmap, t, anc):
    while t is not None:
        if t == anc:
            return True
        t = tmap.get(t)
    return False


class RefSem:
    def __init__(self, world):
        self.world = world
        self.tmap = dict(world.get("types", []))
        self.objs = list(world.get("objects", []))
        self.fluents = {f["name"]: f for f in world["fluents"]}
        self.ifuns = {f["name"]: f for f in world.get("ifuns", [])}
        self.actions = {a["name"]: a for a in world.get("actions", [])}

    # ------------------------------------------------------------ universe
    def objects_of(self, tname):
        return [o for o, ot in self.objs if subtype_of(self.tmap, ot, tname)]

    def ground_fluents(self):
        out = []
        for fd in self.world["fluents"]:
            doms = [self.objects_of(pt[1]) for _, pt in fd.get("params", [])]
            for combo in product(*doms):
                out.append((fd["name"],) + tuple(combo))
        return out

    def initial_state(self):
        st = {}
        for fd in self.world["fluents"]:
            dv = fd.get("default")
            if dv is not None:
                doms = [self.objects_of(pt[1]) for _, pt in fd.get("params", [])]
                for combo in product(*doms):
                    st[(fd["name"],) + tuple(combo)] = self.const(dv)
        for fe, v in self.world.get("init", []):
            key = (fe[1],) + tuple(a[1] for a in fe[2:])
            st[key] = self.const(v)
        return st

    @staticmethod
    def const(v):
        k = v[0]
        if k == "int":
            return Fraction(v[1])
        if k == "real":
            return Fraction(v[1])
        if k == "bool":
            return bool(v[1])
        if k == "o":
            return v[1]
        raise ValueError(v)

    def ground_instances(self, aname):
        ad = self.actions[aname]
        doms = [self.objects_of(pt[1]) for _, pt in ad.get("params", [])]
        return [tuple(c) for c in product(*doms)]

    # ---------------------------------------------------------- evaluation
    def ev(self, e, st, env, lazy):
        """Value of expression e in state st under env (params and bound variables
        -> object names).  Strict mode raises Undefined on any read of an undefined
        fluent; lazy mode short-circuits and returns UNDEF (Kleene) instead."""
        k = e[0]
        if k == "bool":
            return bool(e[1])
        if k in ("int", "real"):
            return Fraction(e[1])
        if k == "o":
            return e[1]
        if k in ("p", "v"):
            return env[e[1]]
        if k == "f":
            args = [self.ev(a, st, env, lazy) for a in e[2:]]
            if any(a is UNDEF for a in args):
                return UNDEF
            key = (e[1],) + tuple(args)
            if key not in st:
                if lazy:
                    return UNDEF
                raise Undefined(key)
            return st[key]
        if k == "if":
            args = [self.ev(a, st, env, lazy) for a in e[2:]]
            if any(a is UNDEF for a in args):
                return UNDEF
            return self.call_ifun(e[1], args)
        if k == "not":
            a = self.ev(e[1], st, env, lazy)
            return UNDEF if a is UNDEF else (not a)
        if k in ("and", "or"):
            vals = [self.ev(a, st, env, lazy) for a in e[1:]]
            return self._junction(k, vals)
        if k == "implies":
            a, b = self.ev(e[1], st, env, lazy), self.ev(e[2], st, env, lazy)
            return self._junction("or", [UNDEF if a is UNDEF else (not a), b])
        if k == "iff":
            a, b = self.ev(e[1], st, env, lazy), self.ev(e[2], st, env, lazy)
            if a is UNDEF or b is UNDEF:
                return UNDEF
            return a == b
        if k in ("exists", "forall"):
            doms = [self.objects_of(t[1]) for _, t in e[1]]
            if any(not d for d in doms):
                # the statement does not say what a quantifier over a type without objects means (the
                # library expands it to the empty junction in one code path and drops an unused
                # variable, keeping the body, in another)
                raise Ambiguous("quantifier over a type without objects")
            vals = []
            for combo in product(*doms):
                env2 = dict(env)
                for (vn, _), o in zip(e[1], combo):
                    env2[vn] = o
                vals.append(self.ev(e[2], st, env2, lazy))
            return self._junction("or" if k == "exists" else "and", vals)
        if k in ("eq", "le", "lt", "ge", "gt"):
            a, b = self.ev(e[1], st, env, lazy), self.ev(e[2], st, env, lazy)
            if a is UNDEF or b is UNDEF:
                return UNDEF
            if k == "eq":
                return a == b
            if k == "le":
                return a <= b
            if k == "lt":
                return a < b
            if k == "ge":
                return a >= b
            return a > b
        if k in ("plus", "times"):
            vals = [self.ev(a, st, env, lazy) for a in e[1:]]
            if any(v is UNDEF for v in vals):
                return UNDEF
            r = Fraction(0) if k == "plus" else Fraction(1)
            for v in vals:
                r = r + v if k == "plus" else r * v
            return r
        if k in ("minus", "div"):
            a, b = self.ev(e[1], st, env, lazy), self.ev(e[2], st, env, lazy)
            if a is UNDEF or b is UNDEF:
                return UNDEF
            if k == "minus":
                return a - b
            if b == 0:
                raise Ambiguous("division by zero")
            return a / b
        raise ValueError(f"refsem: unknown operator {k}")

    @staticmethod
    def _junction(k, vals):
        # Kleene: and = False if any False, else UNDEF if any UNDEF, else True
        dom = False if k == "and" else True
        if any(v is dom for v in vals if v is not UNDEF):
            return dom
        if any(v is UNDEF for v in vals):
            return UNDEF
        return not dom

    def call_ifun(self, name, args):
        d = self.ifuns[name]
        key = []
        for a in args:
            if isinstance(a, bool):
                key.append(a)
            elif isinstance(a, Fraction):
                key.append(int(a) if a.denominator == 1 else str(a))
            else:
                key.append(a)
        for k, v in d.get("table", []):
            if list(k) == key:
                return self.const(v)
        return self.const(d["default"])

    def cond(self, e, st, env):
        """Truth of a condition under the statement's reading: a condition that reads an
        undefined fluent is not satisfied.  Returns True / False, or raises Ambiguous when
        strict and short-circuit evaluation disagree (the statement does not say which
        reads count)."""
        try:
            strict = self.ev(e, st, env, lazy=False)
        except Undefined:
            strict = UNDEF
        if strict is not UNDEF:
            return bool(strict)
        lazyv = self.ev(e, st, env, lazy=True)
        if lazyv is True:
            raise Ambiguous("condition true under short-circuit evaluation but reads an undefined fluent")
        if self.true_under_all_completions(e, st, env):
            # e.g. `f == f`, `a or not a` with f, a undefined: the read cannot influence the
            # truth value (and the library's simplifier folds such conditions away at grounding
            # time).  The statement does not say whether that counts as reading the fluent.
            raise Ambiguous("condition reads an undefined fluent but is true whatever its value")
        return False

    COMPLETION_CAP = 96

    def true_under_all_completions(self, e, st, env):
        undef = [gf for gf in self.ground_fluents() if gf not in st]
        if not undef:
            return False
        doms = []
        for gf in undef:
            t = self.fluents[gf[0]]["type"]
            if t[0] == "bool":
                doms.append([True, False])
            elif t[0] == "user":
                d = self.objects_of(t[1])
                if not d:
                    return False
                doms.append(d)
            else:
                lo = Fraction(t[1]) if t[1] is not None else Fraction(0)
                doms.append([lo, lo + 1, lo + Fraction(1, 2), lo + 3])
        n = 0
        for combo in product(*doms):
            n += 1
            if n > self.COMPLETION_CAP:
                break
            st2 = dict(st)
            st2.update(zip(undef, combo))
            try:
                if self.ev(e, st2, env, lazy=False) is not True:
                    return False
            except (Undefined, Ambiguous):
                return False
        return True

    def value(self, e, st, env, what):
        try:
            return self.ev(e, st, env, lazy=False)
        except Undefined:
            raise Ambiguous(f"undefined fluent read by {what}")

    # --------------------------------------------------------------- steps
    def expand_effects(self, ad, env):
        """Ground effect instances (effect descriptor, environment) in declaration order."""
        for ed in ad.get("effects", []):
            fa = ed.get("forall", [])
            if not fa:
                yield ed, env
                continue
            doms = [self.objects_of(t[1]) for _, t in fa]
            for combo in product(*doms):
                env2 = dict(env)
                for (vn, _), o in zip(fa, combo):
                    env2[vn] = o
                yield ed, env2

    def successor(self, st, aname, params):
        """Returns (applicable, successor-or-None, reason).  May raise Ambiguous."""
        ad = self.actions[aname]
        env = {pn: o for (pn, _), o in zip(ad.get("params", []), params)}
        for pre in ad.get("pre", []):
            if not self.cond(pre, st, env):
                return False, None, "precondition"
        syntax = {}    # key -> set of value expressions (after parameter substitution)
        assigns = {}   # key -> list of values (assignments)
        deltas = {}    # key -> accumulated delta
        probes = set()
        for ed, env2 in self.expand_effects(ad, env):
            fe = ed["fluent"]
            args = [self.value(a, st, env2, "an effect's fluent argument") for a in fe[2:]]
            key = (fe[1],) + tuple(args)
            c = ed.get("cond")
            if c is not None:
                try:
                    cv = self.ev(c, st, env2, lazy=False)
                except Undefined:
                    raise Ambiguous("undefined fluent read by an effect condition")
                if not cv:
                    probes.add("conditional-effect-off")
                    continue
                probes.add("conditional-effect-on")
            if ed.get("forall"):
                probes.add("forall-effect")
            v = self.value(ed["value"], st, env2, "an effect value")
            kind = ed.get("kind", "assign")
            if kind == "assign":
                assigns.setdefault(key, []).append(v)
                syntax.setdefault(key, set()).add(repr(self.subst(ed["value"], env2)))
            else:
                if key not in st:
                    raise Ambiguous("increase/decrease of an undefined fluent")
                deltas[key] = deltas.get(key, Fraction(0)) + (v if kind == "inc" else -v)
                if key in deltas and deltas[key] != (v if kind == "inc" else -v):
                    probes.add("accumulating-effects")
        se = ad.get("simeff")
        if se is not None:
            vals = self.simeff_values(se, st, env)
            for fe, v in zip(se["fluents"], vals):
                args = [self.value(a, st, env, "a simulated effect's fluent argument") for a in fe[2:]]
                key = (fe[1],) + tuple(args)
                if key in assigns or key in deltas:
                    raise Ambiguous("simulated effect and effect on the same ground fluent")
                assigns.setdefault(key, []).append(v)
                probes.add("simulated-effect")
        new = dict(st)
        for key, vals in assigns.items():
            if key in deltas:
                raise Ambiguous("assignment and increase/decrease reach the same ground fluent")
            ft = self.fluents[key[0]]["type"][0]
            if ft == "bool":
                if len(set(vals)) > 1:
                    probes.add("add-after-delete")
                new[key] = any(vals)
            else:
                if len(set(vals)) > 1:
                    return False, None, "conflicting-assignments"
                if len(syntax.get(key, ())) > 1:
                    # same value written twice through different expressions
                    probes.add("same-value-different-syntax")
                new[key] = vals[0]
        for key, d in deltas.items():
            new[key] = st[key] + d
        # bounded numeric types
        for key, v in new.items():
            t = self.fluents[key[0]]["type"]
            if t[0] in ("int", "real"):
                lo, hi = t[1], t[2]
                if lo is not None and v < Fraction(lo):
                    return False, None, "bound"
                if hi is not None and v > Fraction(hi):
                    return False, None, "bound"
        for inv in self.world.get("invariants", []):
            if not self.cond(inv, new, {}):
                return False, None, "invariant"
        return True, new, probes

    def subst(self, e, env):
        if isinstance(e, list):
            if e and e[0] in ("p", "v") and e[1] in env:
                return ["o", env[e[1]]]
            return [self.subst(x, env) for x in e]
        return e

    def simeff_values(self, se, st, env):
        """Simulated effect = table look-up on the values of some ground fluents."""
        key = []
        for fe in se.get("reads", []):
            k = (fe[1],) + tuple(self.ev(a, st, env, lazy=False) for a in fe[2:])
            if k not in st:
                raise Ambiguous("simulated effect reads an undefined fluent")
            v = st[k]
            key.append(v if not isinstance(v, Fraction) else (int(v) if v.denominator == 1 else str(v)))
        for k, vals in se.get("table", []):
            if list(k) == key:
                return [self.const(v) for v in vals]
        return [self.const(v) for v in se["default"]]

    def is_goal(self, st):
        for g in self.world.get("goals", []):
            if not self.cond(g, st, {}):
                return False
        return True

    def state_ok(self, st):
        """Bounds and invariants hold (used for the initial state)."""
        for key, v in st.items():
            t = self.fluents[key[0]]["type"]
            if t[0] in ("int", "real"):
                if t[1] is not None and v < Fraction(t[1]):
                    return False
                if t[2] is not None and v > Fraction(t[2]):
                    return False
        for gf in self.ground_fluents():
            t = self.fluents[gf[0]]["type"]
            if t[0] in ("int", "real") and (t[1] is not None or t[2] is not None) and gf not in st:
                return False
        try:
            for inv in self.world.get("invariants", []):
                if not self.cond(inv, st, {}):
                    return False
        except Ambiguous:
            return False
        return True


def state_key(st):
    return tuple(sorted((k, str(v)) for k, v in st.items()))
