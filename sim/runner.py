"""Batch runner, minimiser, replay, evidence writer.

Process layout: the parent starts W worker interpreters (fresh processes, worker w
under PYTHONHASHSEED = w mod 4); worker w executes runs r = w, w+W, w+2W, ... of the
batch.  The set of runs of a batch is fixed by (VERIF_SEED, tier) -- the wall-clock
budget only truncates it (reported as such), it never changes what a run does.
"""
import copy
import faulthandler
import json
import os
import subprocess
import sys
import time
import traceback

from . import core
from .core import Ctx, StopRun, HarnessError, BuildError, sig_class, sig_full

VERIF = os.path.dirname(os.path.dirname(os.path.abspath(__file__)))
REPLAYS = os.environ.get("UPSIM_REPLAY_DIR") or os.path.join(VERIF, "replays")
EVIDENCE = os.path.join(VERIF, "evidence")
KNOWN = os.path.join(VERIF, "known_findings.json")
HASHSEEDS = ["0", "1", "2", "3"]


def get_engine(prop):
    from .engines import REGISTRY

    if prop not in REGISTRY:
        raise SystemExit(f"no engine for property {prop}")
    modname, clsname = REGISTRY[prop]
    mod = __import__(f"sim.engines.{modname}", fromlist=[clsname])
    return getattr(mod, clsname)(prop)


# --------------------------------------------------------------------------- run


class RunTimeout(BaseException):
    """The library did not return within the per-run wall-clock limit."""


RUN_LIMIT_S = float(os.environ.get("UPSIM_RUN_LIMIT_S", "6"))


def _alarm(signum, frame):
    raise RunTimeout()


def execute_script(engine, script, limit_s=None, attempts=2):
    """One execution of a script in a fresh environment.  Pure function of the
    script, the code under /repo and PYTHONHASHSEED.

    A run normally takes milliseconds; one that does not return within limit_s seconds of
    CPU time (a non-terminating library call) is executed once more with twice the limit and, if it
    still hangs, reported as a violation of `<prop>.terminates` at the operation it hangs in."""
    import signal

    limit_s = limit_s or RUN_LIMIT_S
    for attempt in range(1, attempts + 1):
        ctx = Ctx(engine.prop)
        ctx.ev("seed", script.get("seed"), "profile", script.get("profile"))
        nontrivial = False
        # CPU time of this process, not wall-clock: a loaded machine must not turn a slow run
        # into a "hang" (a non-terminating library call burns CPU, so it is still caught)
        old = signal.signal(signal.SIGPROF, _alarm)
        old_real = signal.signal(signal.SIGALRM, _alarm)
        signal.setitimer(signal.ITIMER_PROF, limit_s * attempt)
        # wall-clock backstop, ten times larger (a run blocked in swap burns no CPU)
        signal.setitimer(signal.ITIMER_REAL, 10 * limit_s * attempt)
        try:
            nontrivial = engine.execute(script, ctx)
            break
        except StopRun:
            break
        except RunTimeout:
            if attempt == attempts:
                ctx.violation = {
                    "oracle": f"{engine.prop}.terminates",
                    "op": ctx.op_index,
                    "cls": "timeout",
                    "detail": "the library did not return from this operation within the per-run time limit "
                              "(tried twice); a run normally takes milliseconds",
                }
                ctx.ev("VIOLATION", f"{engine.prop}.terminates", "timeout")
        finally:
            signal.setitimer(signal.ITIMER_PROF, 0)
            signal.setitimer(signal.ITIMER_REAL, 0)
            signal.signal(signal.SIGPROF, old)
            signal.signal(signal.SIGALRM, old_real)
    return ctx.result(nontrivial)


_warmed = set()


def warmup(engine):
    """Everything lazy happens here, WITHOUT the per-run time limit: the library's own lazy
    imports (Environment() imports unified_planning.engines, which takes seconds on a loaded
    machine -- an alarm in the middle of an import leaves half-initialised modules behind and
    every later run of the process fails) and the first execution of each code path."""
    key = (engine.name, engine.prop)
    if key in _warmed:
        return
    _warmed.add(key)
    import unified_planning.shortcuts  # noqa: F401
    import unified_planning.engines  # noqa: F401
    import unified_planning.engines.compilers  # noqa: F401
    from unified_planning.environment import Environment

    Environment()
    for s in engine.warmup_scripts():
        # generous limit (imports are done, but first executions are slower); a warm-up script
        # that hangs is not a verdict -- the batch will meet the same behaviour and report it
        execute_script(engine, s, limit_s=30.0, attempts=1)


# --------------------------------------------------------------------- minimise


def _paths(node, path=()):
    """Yield (path, node) for every list / dict in a JSON tree, outermost first."""
    if isinstance(node, dict):
        yield path, node
        for k in sorted(node):
            yield from _paths(node[k], path + (k,))
    elif isinstance(node, list):
        yield path, node
        for i, c in enumerate(node):
            yield from _paths(c, path + (i,))


def _get(root, path):
    for p in path:
        root = root[p]
    return root


def _set(root, path, value):
    for p in path[:-1]:
        root = root[p]
    root[path[-1]] = value


class Minimiser:
    def __init__(self, engine, script, target, max_exec=400, max_s=30.0):
        self.engine = engine
        self.best = script
        self.target = target
        self.execs = 0
        self.max_exec = max_exec
        self.deadline = time.monotonic() + max_s
        # candidates of a hanging run hang too: keep them cheap
        self.limit_s = 2.0 if target and target[1] == "timeout" else None

    def out_of_budget(self):
        return self.execs >= self.max_exec or time.monotonic() > self.deadline

    def interesting(self, cand):
        if self.out_of_budget():
            return False
        self.execs += 1
        try:
            res = execute_script(self.engine, cand, limit_s=self.limit_s, attempts=1 if self.limit_s else 2)
        except HarnessError:
            return False
        except Exception:
            return False
        return sig_class(res["violation"]) == self.target

    def try_accept(self, cand):
        if self.interesting(cand):
            self.best = cand
            return True
        return False

    def ddmin_list(self, path):
        """Delta debugging over the list at path."""
        lst = _get(self.best, path)
        n = 2
        while len(lst) >= 1 and not self.out_of_budget():
            chunk = max(1, len(lst) // n)
            reduced = False
            i = 0
            while i < len(lst):
                cand = copy.deepcopy(self.best)
                new = lst[:i] + lst[i + chunk :]
                if path:
                    _set(cand, path, new)
                else:
                    cand = new
                if self.try_accept(cand):
                    lst = _get(self.best, path)
                    reduced = True
                    n = max(n - 1, 2)
                else:
                    i += chunk
                if self.out_of_budget():
                    return
            if not reduced:
                if chunk == 1:
                    break
                n = min(len(lst), n * 2)

    def run(self):
        # 1. ops, 2. everything else that is a list (world pruning), 3. hoisting of
        # sub-expressions, 4. integers toward 0/1
        if isinstance(self.best.get("ops"), list):
            self.ddmin_list(("ops",))
        # drop fault annotations
        for i, op in enumerate(list(self.best.get("ops", []))):
            if isinstance(op, dict) and op.get("fault"):
                cand = copy.deepcopy(self.best)
                del cand["ops"][i]["fault"]
                self.try_accept(cand)
        progress = True
        rounds = 0
        while progress and not self.out_of_budget() and rounds < 4:
            progress = False
            rounds += 1
            size0 = len(json.dumps(self.best))
            for path, node in list(_paths(self.best)):
                if self.out_of_budget():
                    break
                try:
                    cur = _get(self.best, path)
                except (KeyError, IndexError, TypeError):
                    continue
                if isinstance(cur, list) and path and path != ("ops",):
                    # expression hoisting: replace ["op", a, b] by a or b
                    if cur and isinstance(cur[0], str) and cur[0] not in ("exists", "forall"):
                        # (never hoist the body out of a quantifier: it would leave a free variable)
                        for c in cur[1:]:
                            if isinstance(c, list) and c and isinstance(c[0], str):
                                cand = copy.deepcopy(self.best)
                                _set(cand, path, copy.deepcopy(c))
                                if self.try_accept(cand):
                                    break
                        else:
                            pass
                    else:
                        if len(cur) > 0:
                            self.ddmin_list(path)
            # integers
            for path, node in list(_paths(self.best)):
                if self.out_of_budget():
                    break
                try:
                    cur = _get(self.best, path)
                except (KeyError, IndexError, TypeError):
                    continue
                if path and path[0] == "knobs":
                    continue  # tuning knobs have their own legal values
                if isinstance(cur, list) and len(cur) == 3 and cur and cur[0] in ("int", "real"):
                    continue  # a type descriptor ["int", lo, hi]: shrinking bounds changes what is well-typed
                items = cur.items() if isinstance(cur, dict) else enumerate(cur)
                for k, v in list(items):
                    if isinstance(v, bool) or not isinstance(v, int):
                        continue
                    if k in ("seed", "knobs") or (not path and k in ("pick", "perm_seed")):
                        continue
                    for nv in (0, 1, v // 2):
                        if abs(nv) < abs(v):
                            cand = copy.deepcopy(self.best)
                            _get(cand, path)[k] = nv
                            if self.try_accept(cand):
                                break
            if len(json.dumps(self.best)) < size0:
                progress = True
        return self.best


def minimise(engine, script, violation, quick=False):
    # a violation that is already a recorded finding by oracle+class needs no deep shrinking
    m = Minimiser(engine, script, sig_class(violation), *((80, 6.0) if quick else ()))
    best = m.run()
    return best, m.execs


# ----------------------------------------------------------------------- worker


def worker_main(args):
    """args: dict from the parent.  Writes a JSON summary to args['out']."""
    faulthandler.enable()
    try:
        import resource

        # a runaway library call must fail with MemoryError, not take the machine down
        resource.setrlimit(resource.RLIMIT_AS, (8 << 30, 8 << 30))
    except Exception:
        pass
    prop, tier = args["prop"], args["tier"]
    w, W = args["w"], args["W"]
    engine = get_engine(prop)
    hashseed = os.environ.get("PYTHONHASHSEED", "random")
    warmup(engine)
    t0 = time.monotonic()
    deadline = t0 + args["budget_s"]
    profs = engine.profiles(tier)
    agg = {
        "w": w,
        "hashseed": hashseed,
        "runs": 0,
        "execs": 0,
        "ops": 0,
        "judged": 0,
        "skipped": 0,
        "probes": {},
        "faults_cfg": {},
        "faults_fired": {},
        "other_prop": {},
        "shapes": set(),
        "states": set(),
        "samples": [],
        "violations": [],
        "truncated": False,
        "sim_time": 0.0,
        "by_profile": {},
        "digests": {},
        "nontrivial_runs": 0,
    }
    seen_sig = set()
    known = load_known()

    def add(d, key):
        for k, v in d.items():
            agg[key][k] = agg[key].get(k, 0) + v

    r = w
    history = []   # scripts executed earlier in THIS process (a library with process-wide state makes them matter)
    while r < args["nruns"]:
        if time.monotonic() > deadline:
            agg["truncated"] = True
            break
        seed = core.run_seed(args["batch_seed"], r)
        prof = profs[r % len(profs)] if args.get("profile") is None else args["profile"]
        faulthandler.dump_traceback_later(args.get("hang_s", 600), exit=True)
        script = engine.generate(seed, prof, tier)
        script.setdefault("engine", engine.name)
        script["prop"] = prop
        script["seed"] = seed
        script["profile"] = prof
        script["hashseed"] = hashseed
        scripts = engine.expand(script, tier) or [script]
        for sc in scripts:
            faulthandler.cancel_dump_traceback_later()
            faulthandler.dump_traceback_later(args.get("hang_s", 600), exit=True)
            res = execute_script(engine, sc)
            agg["execs"] += 1
            agg["ops"] += res["ops"]
            agg["judged"] += res["judged"]
            agg["skipped"] += res["skipped"]
            agg["sim_time"] += res["sim_time"]
            add(res["probes"], "probes")
            add(res["faults_cfg"], "faults_cfg")
            add(res["faults_fired"], "faults_fired")
            add(res["other_prop"], "other_prop")
            agg["by_profile"][prof] = agg["by_profile"].get(prof, 0) + 1
            if res["nontrivial"]:
                agg["shapes"].add(res["shape"])
                agg["nontrivial_runs"] += 1
                if len(agg["samples"]) < 2:
                    agg["samples"].append(sc)
            agg["states"].update(res["states"])
            if args.get("keep_digests"):
                agg["digests"][f"{seed}:{sc.get('variant', 0)}"] = res["digest"]
            v = res["violation"]
            if v is not None:
                sc_key = sig_class(v)
                if sc_key not in seen_sig and len(agg["violations"]) < 4:
                    seen_sig.add(sc_key)
                    faulthandler.cancel_dump_traceback_later()
                    faulthandler.dump_traceback_later(300, exit=True)
                    quick_min = any(k["property"] == prop and k["oracle"] == v["oracle"] and k.get("cls") == v["cls"]
                                    and "script_regex" not in k and "detail_regex" not in k
                                    for k in known.get("findings", []))
                    best, nexec = minimise(engine, sc, v, quick=quick_min)
                    final = execute_script(engine, best)
                    if sig_class(final["violation"]) != sc_key:
                        raise HarnessError(
                            f"minimised script lost its violation: seed {seed}: found {v}, minimised script gives "
                            f"{final['violation']}"
                        )
                    best["expect"] = {
                        "violation": final["violation"],
                        "digest": final["digest"],
                    }
                    best["minimiser_execs"] = nexec
                    os.makedirs(REPLAYS, exist_ok=True)
                    path = os.path.join(REPLAYS, f"{prop}-{seed}.json")
                    with open(path, "w") as f:
                        json.dump(best, f, indent=1, sort_keys=True)
                    hpath = path + ".history"
                    with open(hpath, "w") as f:
                        json.dump(history[-400:], f)
                    agg["violations"].append(
                        {
                            "seed": seed,
                            "path": path,
                            "history": hpath,
                            "violation": final["violation"],
                            "original": v,
                            "hashseed": hashseed,
                        }
                    )
                else:
                    agg.setdefault("more_violations", 0)
                    agg["more_violations"] += 1
                if v["cls"] == "timeout":
                    # every further hanging run would cost the full time limit: stop here
                    agg["truncated"] = True
                    agg["stopped_after_timeout"] = True
                    r = args["nruns"]
                    break
        history.extend(scripts)
        if len(history) > 400:
            del history[:-400]
        agg["runs"] += 1
        r += W
    faulthandler.cancel_dump_traceback_later()
    agg["shapes"] = sorted(agg["shapes"])
    agg["states"] = sorted(agg["states"])
    agg["wall_s"] = time.monotonic() - t0
    with open(args["out"], "w") as f:
        json.dump(agg, f)


# ----------------------------------------------------------------------- replay


def replay_file(path, prop=None, quiet=False):
    """Re-execute a recorded script.  Returns (status, result): status is
    'reproduced', 'different', 'passed'."""
    with open(path) as f:
        script = json.load(f)
    want = script.get("hashseed")
    have = os.environ.get("PYTHONHASHSEED")
    if want is not None and want != have and os.environ.get("UPSIM_NO_REEXEC") != "1":
        env = dict(os.environ, PYTHONHASHSEED=str(want), UPSIM_NO_REEXEC="1")
        p = subprocess.run(
            [sys.executable, os.path.join(VERIF, "run_check.py"), script["prop"], "--replay", path]
            + (["--quiet"] if quiet else []),
            env=env,
        )
        raise SystemExit(p.returncode)
    engine = get_engine(prop or script["prop"])
    warmup(engine)
    # what ran earlier in the process that found the violation (only recorded when the script alone does not
    # reproduce: the library keeps state across runs somewhere the harness cannot reset)
    for earlier in script.get("process_history", []):
        try:
            execute_script(engine, earlier)
        except Exception:
            pass
    res = execute_script(engine, script)
    exp = script.get("expect")
    if res["violation"] is None:
        return "passed", res, script
    if exp and sig_full(exp["violation"]) == sig_full(res["violation"]) and exp["digest"] == res["digest"]:
        return "reproduced", res, script
    return "different", res, script


# --------------------------------------------------------------- known findings


def load_known():
    if not os.path.exists(KNOWN):
        return {"findings": [], "fixed": []}
    with open(KNOWN) as f:
        return json.load(f)


def match_known(known, prop, violation, script):
    import re

    text = json.dumps(script.get("ops", []), sort_keys=True) + json.dumps(
        script.get("world", {}), sort_keys=True
    )
    for k in known.get("findings", []):
        if k["property"] != prop or k["oracle"] != violation["oracle"]:
            continue
        if "cls" in k and k["cls"] != violation["cls"]:
            continue
        if "detail_regex" in k and not re.search(k["detail_regex"], violation["detail"], re.S):
            continue
        if "script_regex" in k and not re.search(k["script_regex"], text, re.S):
            continue
        return k
    return None


# ------------------------------------------------------------------------ batch

TIERS = {
    # nruns is the size of the batch; budget_s truncates it
    "quick": {"budget_s": 25.0},
    "thorough": {"budget_s": 480.0},
}


def run_batch(prop, tier, nruns=None, budget_s=None, workers=None, profile=None,
              keep_digests=False, write_evidence=True, quiet=False, hs_shift=0):
    import tempfile
    import shutil

    t0 = time.monotonic()
    engine = get_engine(prop)
    W = workers or min(16, os.cpu_count() or 4)
    budget_s = budget_s if budget_s is not None else float(
        os.environ.get("VERIF_BUDGET_S", engine.budgets.get(tier, TIERS[tier]["budget_s"]))
    )
    nruns = nruns if nruns is not None else engine.nruns[tier]
    bseed = core.batch_seed()
    print(f"seed={bseed} property={prop} engine={engine.name} tier={tier} workers={W} "
          f"nruns={nruns} budget_s={budget_s}", flush=True)
    tmp = tempfile.mkdtemp(prefix="upsim-")
    procs = []
    try:
        for w in range(W):
            out = os.path.join(tmp, f"w{w}.json")
            args = {
                "prop": prop, "tier": tier, "w": w, "W": W, "nruns": nruns,
                "budget_s": budget_s, "batch_seed": bseed, "out": out,
                "profile": profile, "keep_digests": keep_digests,
            }
            env = dict(os.environ, PYTHONHASHSEED=HASHSEEDS[(w + hs_shift) % len(HASHSEEDS)],
                       PYTHONWARNINGS="ignore", HOME=tmp)
            p = subprocess.Popen(
                [sys.executable, os.path.join(VERIF, "run_check.py"), "--worker", json.dumps(args)],
                env=env, cwd=tmp, stdout=subprocess.PIPE, stderr=subprocess.STDOUT, text=True,
            )
            procs.append((w, p, out))
        aggs = []
        failed = []
        grace = budget_s + 420
        for w, p, out in procs:
            try:
                so, _ = p.communicate(timeout=max(5.0, grace - (time.monotonic() - t0)))
            except subprocess.TimeoutExpired:
                p.kill()
                so, _ = p.communicate()
                failed.append((w, "hang", so))
                continue
            if p.returncode != 0 or not os.path.exists(out):
                failed.append((w, f"exit {p.returncode}", so))
                continue
            with open(out) as f:
                aggs.append(json.load(f))
        if failed:
            for w, why, so in failed:
                print(f"HARNESS-ERROR worker {w}: {why}\n{so[-3000:]}", flush=True)
            return 2, None
    finally:
        for _, p, _ in procs:
            if p.poll() is None:
                p.kill()
        shutil.rmtree(tmp, ignore_errors=True)

    # ---- merge
    def msum(key):
        tot = {}
        for a in aggs:
            for k, v in a[key].items():
                tot[k] = tot.get(k, 0) + v
        return dict(sorted(tot.items()))

    shapes = set()
    states = set()
    for a in aggs:
        shapes.update(a["shapes"])
        states.update(a["states"])
    runs = sum(a["runs"] for a in aggs)
    execs = sum(a["execs"] for a in aggs)
    wall = time.monotonic() - t0
    work_wall = max(a["wall_s"] for a in aggs) if aggs else wall
    violations = [dict(v) for a in aggs for v in a["violations"]]

    # ---- verify each violation by replaying it in a fresh interpreter
    known = load_known()
    status = 0
    lines = []
    seen = set()
    n_new = 0
    n_known = 0
    # ---- every recorded finding of this property is re-examined through its committed replay,
    #      so that it is reported on every run whether or not the sampled batch reaches it
    for k in known.get("findings", []):
        if k["property"] != prop or not k.get("replay"):
            continue
        rp = os.path.join(VERIF, k["replay"])
        p = subprocess.run([sys.executable, os.path.join(VERIF, "run_check.py"), prop, "--replay", rp, "--quiet"],
                           env=dict(os.environ, PYTHONWARNINGS="ignore"), capture_output=True, text=True, timeout=600)
        first = p.stdout.splitlines()[0] if p.stdout else ""
        if first.startswith("REPLAY passed"):
            lines.append(f"NOTE: recorded finding {k['id']} no longer reproduces from {k['replay']}")
            continue
        if f"oracle={k['oracle']} " in first and (("cls" not in k) or f"class={k['cls']} " in first):
            seen.add(("K", k["id"]))
            n_known += 1
            lines.append(f"KNOWN-FINDING: property={prop} {k['what']} (id={k['id']} replay={k['replay']})")
        else:
            # the committed replay now fails in another way: that is a new violation
            status = 1
            n_new += 1
            lines.append(f"VIOLATION property={prop} replay={rp}")
            lines.append(f"  the replay of recorded finding {k['id']} now fails differently: {first}")
    verified = set()
    for v in sorted(violations, key=lambda v: v["seed"]):
        key = (v["violation"]["oracle"], v["violation"]["cls"])
        if key in verified:
            # one replay per signature class is verified in a fresh interpreter
            continue
        verified.add(key)
        env = dict(os.environ, PYTHONHASHSEED=str(v["hashseed"]), UPSIM_NO_REEXEC="1",
                   PYTHONWARNINGS="ignore")
        p = subprocess.run(
            [sys.executable, os.path.join(VERIF, "run_check.py"), prop, "--replay", v["path"], "--quiet"],
            env=env, capture_output=True, text=True, timeout=600,
        )
        needs_history = None
        if "REPLAY reproduced" not in p.stdout:
            # the script alone does not reproduce in a fresh interpreter.  Either the harness is not deterministic
            # (an error), or the library carries state from one run to the next inside a process: replay with the
            # runs that preceded it in the worker, shortest suffix first
            hist = []
            if v.get("history") and os.path.exists(v["history"]):
                with open(v["history"]) as f:
                    hist = json.load(f)
            with open(v["path"]) as f:
                base = json.load(f)
            k = 1
            while hist and needs_history is None:
                k = min(k, len(hist))
                cand = dict(base, process_history=hist[-k:])
                with open(v["path"], "w") as f:
                    json.dump(cand, f, indent=1, sort_keys=True)
                p2 = subprocess.run(
                    [sys.executable, os.path.join(VERIF, "run_check.py"), prop, "--replay", v["path"], "--quiet"],
                    env=env, capture_output=True, text=True, timeout=1800,
                )
                if "REPLAY reproduced" in p2.stdout:
                    needs_history = k
                elif k == len(hist):
                    break
                else:
                    k *= 2
            if needs_history is None:
                with open(v["path"], "w") as f:
                    json.dump(base, f, indent=1, sort_keys=True)
                print(f"HARNESS-ERROR replay of {v['path']} diverged:\n{p.stdout[-2000:]}\n{p.stderr[-2000:]}")
                return 2, None
        with open(v["path"]) as f:
            script = json.load(f)
        k = match_known(known, prop, v["violation"], script)
        if k is not None:
            n_known += 1
            if ("K", k["id"]) not in seen:
                seen.add(("K", k["id"]))
                lines.append(f"KNOWN-FINDING: property={prop} {k['what']} (id={k['id']} replay={v['path']})")
            continue
        n_new += 1
        if key in seen:
            continue
        seen.add(key)
        status = 1
        lines.append(f"VIOLATION property={prop} replay={v['path']}")
        lines.append(f"  oracle={v['violation']['oracle']} class={v['violation']['cls']} "
                     f"op={v['violation']['op']} seed={v['seed']} hashseed={v['hashseed']}")
        lines.append(f"  detail: {v['violation']['detail'][:400]}")
        if needs_history:
            lines.append(f"  note: reproduces only after the {needs_history} run(s) that preceded it in the same process "
                         f"(recorded in the replay file as process_history): the library keeps state across runs")
    for line in lines:
        print(line, flush=True)

    probes_all = msum("probes")
    discarded = sum(v for k, v in probes_all.items() if k.startswith("discarded-"))
    if execs and discarded > max(10, 0.08 * execs):
        print(f"HARNESS-ERROR {discarded} of {execs} executions were discarded as unbuildable")
        return 2, None
    truncated = any(a["truncated"] for a in aggs)
    samples = [s for a in aggs for s in a["samples"]][:3]
    if not samples:
        samples = [engine.generate(core.run_seed(bseed, 0), engine.profiles(tier)[0], tier)]
    by_profile = msum("by_profile")
    cov = {
        "evaluations": execs,
        "distinct_nontrivial": len(shapes),
        "rule": engine.rule,
        "samples": samples,
        "runs": runs,
        "runs_planned": nruns,
        "truncated_by_budget": truncated,
        "runs_per_hour": int(runs / max(work_wall, 1e-9) * 3600),
        "operations_executed": sum(a["ops"] for a in aggs),
        "oracle_evaluations": sum(a["judged"] for a in aggs),
        "ambiguous_steps_skipped": sum(a["skipped"] for a in aggs),
        "nontrivial_runs": sum(a["nontrivial_runs"] for a in aggs),
        "faults_configured": msum("faults_cfg"),
        "faults_fired": msum("faults_fired"),
        "probes": msum("probes"),
        "sibling_property_oracle_failures_not_reported_here": msum("other_prop"),
        "distinct_model_states": len(states),
        "simulated_seconds": round(sum(a["sim_time"] for a in aggs), 3),
        "runs_by_profile": by_profile,
        "workers": W,
        "hashseeds": sorted({a["hashseed"] for a in aggs}),
        "real_components": list(engine.real_components),
        "stub_components": list(engine.stub_components),
        "executions_discarded": discarded,
        "violations_known": n_known,
        "violations_new": n_new,
        "exhaustive": False,
    }
    ev = {
        "property_id": prop,
        "tier": tier,
        "seed": bseed,
        "level": engine.level_for(tier),
        "coverage": cov,
        "assumptions": list(engine.assumptions),
        "wall_s": round(wall, 2),
        "violations": n_new,
    }
    if write_evidence:
        os.makedirs(EVIDENCE, exist_ok=True)
        with open(os.path.join(EVIDENCE, f"{prop}.json"), "w") as f:
            json.dump(ev, f, indent=1, sort_keys=True)
    if not quiet:
        print(f"runs={runs}/{nruns} execs={execs} truncated={truncated} ops={cov['operations_executed']} "
              f"judged={cov['oracle_evaluations']} nontrivial_distinct={len(shapes)} "
              f"states={len(states)} runs/h={cov['runs_per_hour']} wall={wall:.1f}s", flush=True)
        print(f"faults fired={cov['faults_fired']} configured={cov['faults_configured']}")
        print(f"probes={cov['probes']}")
        if cov["sibling_property_oracle_failures_not_reported_here"]:
            print(f"sibling-property oracle failures (not this check): "
                  f"{cov['sibling_property_oracle_failures_not_reported_here']}")
    print("RESULT", "ok" if status == 0 else "violation", flush=True)
    return status, (ev, aggs)
