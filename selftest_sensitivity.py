#!/venv/bin/python
"""Sensitivity self-test: every patch under mutants/<prop>/ (hand-written) and
seeded/<id>/patch.diff (written by independent sub-agents) must be caught by the
quick check of its property when applied to a scratch copy of the library, and the
replay that catches it must pass on the unchanged /repo.

  selftest_sensitivity.py [prop ...] [--tier quick] [--seeded] [--only name]
Writes SENSITIVITY.md.  Scratch copies live under a temporary directory and are
removed as soon as each mutant has been judged."""
import argparse, glob, json, os, re, shutil, subprocess, sys, tempfile, time

VERIF = os.path.dirname(os.path.abspath(__file__))
PY = sys.executable


def run_mutant(prop, patch, tier, budget=None):
    tmp = tempfile.mkdtemp(prefix="upmut-")
    try:
        shutil.copytree("/repo/unified_planning", os.path.join(tmp, "unified_planning"))
        p = subprocess.run(["patch", "-p1", "-s", "-i", patch], cwd=tmp, capture_output=True, text=True)
        if p.returncode != 0:
            return {"status": "patch-failed", "out": p.stdout + p.stderr}
        rdir = os.path.join(tmp, "replays")
        env = dict(os.environ, UPSIM_REPO=tmp, UPSIM_REPLAY_DIR=rdir)
        t0 = time.time()
        cmd = [PY, os.path.join(VERIF, "run_check.py"), prop, "--tier", tier, "--no-evidence"]
        if budget:
            cmd += ["--budget", str(budget)]
        r = subprocess.run(cmd, env=env, capture_output=True, text=True, timeout=3600)
        wall = time.time() - t0
        viols = re.findall(r"VIOLATION property=(\S+) replay=(\S+)", r.stdout)
        oracle = re.findall(r"oracle=(\S+) class=(\S+)", r.stdout)
        res = {"exit": r.returncode, "wall_s": round(wall, 1), "oracles": sorted(set(o for o, _ in oracle))}
        if r.returncode == 1 and viols:
            # the replay must pass on the unchanged tree
            env2 = dict(os.environ)
            env2.pop("UPSIM_REPO", None)
            ok_clean = True
            for _, path in viols:
                q = subprocess.run([PY, os.path.join(VERIF, "run_check.py"), prop, "--replay", path, "--quiet"],
                                   env=env2, capture_output=True, text=True)
                if q.returncode != 0:
                    ok_clean = False
            res["status"] = "caught" if ok_clean else "caught-but-replay-fails-on-clean-tree"
            with open(viols[0][1]) as f:
                sc = json.load(f)
            res["min_ops"] = len(sc.get("ops", []))
            res["seed"] = sc.get("seed")
        elif r.returncode == 0:
            res["status"] = "MISSED"
        else:
            res["status"] = f"harness-error"
            res["out"] = r.stdout[-1500:] + r.stderr[-1500:]
        return res
    finally:
        shutil.rmtree(tmp, ignore_errors=True)


def main():
    ap = argparse.ArgumentParser()
    ap.add_argument("props", nargs="*")
    ap.add_argument("--tier", default="quick")
    ap.add_argument("--budget", type=float)
    ap.add_argument("--only")
    ap.add_argument("--no-escalate", action="store_true")
    ap.add_argument("--escalate-budget", type=float, default=120.0)
    ap.add_argument("--no-write", action="store_true")
    ap.add_argument("--from-log", help="merge the result lines of an earlier run's output")
    ap.add_argument("--none", action="store_true", help="run nothing, only merge / render")
    a = ap.parse_args()
    items = []
    outside = {}
    for patch in sorted(glob.glob(os.path.join(VERIF, "mutants", "*", "*.patch"))):
        prop = os.path.basename(os.path.dirname(patch))
        items.append((prop, "mutants/" + prop + "/" + os.path.basename(patch), patch))
    for meta in sorted(glob.glob(os.path.join(VERIF, "seeded", "*", "meta.json"))):
        with open(meta) as f:
            m = json.load(f)
        d = os.path.dirname(meta)
        items.append((m["property"], "seeded/" + os.path.basename(d), os.path.join(d, "patch.diff")))
        if os.path.exists(os.path.join(d, "OUTSIDE.md")):
            # kept for the record, deliberately NOT caught: what it breaks is outside the property as stated
            outside["seeded/" + os.path.basename(d)] = open(os.path.join(d, "OUTSIDE.md")).read().strip().splitlines()[0]
    rows = []
    for prop, name, patch in items:
        if a.props and prop not in a.props:
            continue
        if a.only and a.only not in name:
            continue
        if a.none:
            continue
        res = run_mutant(prop, patch, a.tier, a.budget)
        res["tier"] = a.tier
        if res["status"] == "MISSED" and a.tier == "quick" and not a.no_escalate:
            # not caught by the check one runs on every change: try the deep one, bounded
            res2 = run_mutant(prop, patch, "thorough", a.escalate_budget)
            if res2["status"] == "caught":
                res2["status"] = "caught"
                res2["tier"] = f"thorough ({a.escalate_budget:.0f} s budget); missed by quick"
                res = res2
        if name in outside and res["status"] == "MISSED":
            res["status"] = "not caught, by decision"
            res["tier"] = outside[name]
        rows.append((prop, name, res))
        print(prop, name, json.dumps(res), flush=True)
    # results are merged over runs (SENSITIVITY.json), so that changes added later can be run on their own
    store = os.path.join(VERIF, "SENSITIVITY.json")
    merged = {}
    if os.path.exists(store):
        with open(store) as f:
            merged = json.load(f)
    if a.from_log:
        for line in open(a.from_log):
            parts = line.split(" ", 2)
            if len(parts) == 3 and parts[2].lstrip().startswith("{"):
                try:
                    merged[parts[1]] = {"prop": parts[0], "res": json.loads(parts[2])}
                except ValueError:
                    pass
    for prop, name, res in rows:
        merged[name] = {"prop": prop, "res": res}
    for name, v in merged.items():
        if name in outside and v["res"].get("status") == "MISSED":
            v["res"]["status"] = "not caught, by decision"
            v["res"]["tier"] = outside[name]
    present = {name for _, name, _ in items}
    merged = {k: v for k, v in merged.items() if k in present}
    if not a.no_write:
        with open(store, "w") as f:
            json.dump(merged, f, indent=1, sort_keys=True)
        rows_all = [(v["prop"], k, v["res"]) for k, v in sorted(merged.items(), key=lambda kv: (kv[1]["prop"], kv[0]))]
        with open(os.path.join(VERIF, "SENSITIVITY.md"), "w") as f:
            rows, rows_run = rows_all, rows
            f.write("# Sensitivity: which check catches which change\n\n")
            f.write(f"Tier: {a.tier}.  Each change is applied to a scratch copy of the library (UPSIM_REPO), the\n"
                    "check of its property is run, and the replay it reports is re-run on the unchanged tree (must pass).\n\n")
            f.write("| property | change | result | tier | oracle(s) | ops in minimised replay | wall s |\n|---|---|---|---|---|---|---|\n")
            for prop, name, res in rows:
                f.write(f"| {prop} | {name} | {res['status']} | {res.get('tier', '')} | {', '.join(res.get('oracles', []))} | "
                        f"{res.get('min_ops', '')} | {res.get('wall_s', '')} |\n")
    bad = [r for r in rows if r[2]["status"] not in ("caught", "not caught, by decision")]
    missing = sorted(present - set(merged)) if not a.no_write else []
    if missing:
        print("no result yet for:", ", ".join(missing))
    return 1 if bad else 0


if __name__ == "__main__":
    sys.exit(main())
