#!/venv/bin/python
"""Entry point of every registered check.

  run_check.py <prop> --tier quick|thorough     run a batch, write evidence, exit 0/1/2
  run_check.py <prop> --replay <file>           re-execute a recorded script
  run_check.py <prop> --one <r>                 run one seed of the batch verbosely
"""
import argparse
import json
import os
import sys

sys.path.insert(0, os.path.dirname(os.path.abspath(__file__)))
if os.environ.get("UPSIM_REPO"):
    sys.path.insert(0, os.environ["UPSIM_REPO"])

import warnings

warnings.simplefilter("ignore")


def main():
    if len(sys.argv) >= 3 and sys.argv[1] == "--worker":
        from sim import runner

        runner.worker_main(json.loads(sys.argv[2]))
        return 0
    ap = argparse.ArgumentParser()
    ap.add_argument("prop")
    ap.add_argument("--tier", default=os.environ.get("VERIF_TIER", "quick"))
    ap.add_argument("--replay")
    ap.add_argument("--one", type=int)
    ap.add_argument("--profile")
    ap.add_argument("--runs", type=int)
    ap.add_argument("--budget", type=float)
    ap.add_argument("--workers", type=int)
    ap.add_argument("--quiet", action="store_true")
    ap.add_argument("--no-evidence", action="store_true")
    a = ap.parse_args()
    from sim import runner, core

    if a.replay:
        status, res, script = runner.replay_file(a.replay, a.prop, a.quiet)
        v = res["violation"]
        if status == "passed":
            print(f"REPLAY passed: no violation of {a.prop} (digest {res['digest']})")
            return 0
        print(f"REPLAY {status}: oracle={v['oracle']} class={v['cls']} op={v['op']} digest={res['digest']}")
        print(f"  detail: {v['detail']}")
        print(f"VIOLATION property={a.prop} replay={a.replay}")
        return 1
    if a.one is not None:
        engine = runner.get_engine(a.prop)
        runner.warmup(engine)
        seed = core.run_seed(core.batch_seed(), a.one)
        profs = engine.profiles(a.tier)
        prof = a.profile or profs[a.one % len(profs)]
        script = engine.generate(seed, prof, a.tier)
        script.update(seed=seed, profile=prof, prop=a.prop, hashseed=os.environ.get("PYTHONHASHSEED", "random"))
        ctx = core.Ctx(a.prop)
        try:
            nt = engine.execute(script, ctx)
        except core.StopRun:
            nt = None
        print(json.dumps(script, indent=1))
        print("\n".join(ctx.log))
        print("nontrivial", nt, "violation", ctx.violation, "probes", dict(ctx.probes), "other", dict(ctx.other_prop))
        return 1 if ctx.violation else 0
    status, _ = runner.run_batch(
        a.prop, a.tier, nruns=a.runs, budget_s=a.budget, workers=a.workers,
        profile=a.profile, write_evidence=not a.no_evidence,
    )
    return status


if __name__ == "__main__":
    try:
        rc = main()
    except SystemExit:
        raise
    except BaseException:
        import traceback

        traceback.print_exc()
        print("HARNESS-ERROR (exit 2)")
        rc = 2
    sys.exit(rc)
