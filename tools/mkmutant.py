#!/venv/bin/python
"""mkmutant.py <prop> <name> <file relative to /repo> <<< python code that maps source text s -> new text
Writes /verif/mutants/<prop>/<name>.patch (a -p1 patch against /repo)."""
import sys, os, subprocess, tempfile
prop, name, rel = sys.argv[1:4]
code = sys.stdin.read()
src = open(os.path.join("/repo", rel)).read()
ns = {"s": src}
exec(code, ns)
new = ns["s"]
assert new != src, "mutant does not change the file"
with tempfile.TemporaryDirectory() as d:
    a = os.path.join(d, "a", rel); b = os.path.join(d, "b", rel)
    os.makedirs(os.path.dirname(a)); os.makedirs(os.path.dirname(b))
    open(a, "w").write(src); open(b, "w").write(new)
    p = subprocess.run(["diff", "-u", os.path.join("a", rel), os.path.join("b", rel)], cwd=d, capture_output=True, text=True)
out = os.path.join("/verif/mutants", prop); os.makedirs(out, exist_ok=True)
open(os.path.join(out, name + ".patch"), "w").write(p.stdout)
print(p.stdout)
