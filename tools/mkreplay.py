#!/venv/bin/python
"""mkreplay.py <prop> <script.json> [hashseed]: executes a hand-written / edited script in a fresh
interpreter state and stores the observed violation and digest as its expectation."""
import json, os, sys
sys.path.insert(0, os.path.dirname(os.path.dirname(os.path.abspath(__file__))))
prop, path = sys.argv[1], sys.argv[2]
hs = sys.argv[3] if len(sys.argv) > 3 else "0"
if os.environ.get("PYTHONHASHSEED") != hs:
    os.environ["PYTHONHASHSEED"] = hs
    os.execv(sys.executable, [sys.executable] + sys.argv)
import warnings; warnings.simplefilter("ignore")
from sim import runner
s = json.load(open(path))
s.update(prop=prop, hashseed=hs)
s.setdefault("seed", 0); s.setdefault("profile", "handwritten")
s.pop("expect", None)
eng = runner.get_engine(prop)
runner.warmup(eng)
res = runner.execute_script(eng, s)
s["expect"] = {"violation": res["violation"], "digest": res["digest"]}
json.dump(s, open(path, "w"), indent=1, sort_keys=True)
print(res["violation"])
