#!/bin/bash
# Background soak: thorough tier of every built property under several batch seeds,
# with a reduced worker count so that foreground work stays responsive.
# usage: tools/soak.sh [workers] [budget_s] [seeds...]
W=${1:-6}; B=${2:-240}; shift 2
SEEDS=${@:-"7 1234"}
cd "$(dirname "$0")/.."
for seed in $SEEDS; do
  for p in $(/venv/bin/python -c "from sim.engines import REGISTRY; print(' '.join(sorted(REGISTRY)))"); do
    echo "=== $p seed=$seed"
    VERIF_SEED=$seed timeout 3600 /venv/bin/python run_check.py $p --tier thorough --workers $W --budget $B --no-evidence 2>&1 | grep -v "^probes" | grep "VIOLATION\|KNOWN\|HARNESS\|^runs\|RESULT\|oracle=\|detail" | cut -c1-400
  done
done
