#!/venv/bin/python
"""Regenerates /verif/MANIFEST.json from the engine registry and the tables below."""
import json
import os
import sys

VERIF = os.path.dirname(os.path.dirname(os.path.abspath(__file__)))
sys.path.insert(0, VERIF)
from sim.engines import REGISTRY  # noqa: E402

PY = "/venv/bin/python"

CLAIMED = {
    "C01": dict(
        section="4.1",
        text="Seeded search over query histories on one long-lived UPSequentialSimulator (apply / is_applicable / "
             "get_applicable_actions / is_goal on a growing pool of states, internally handled failures reached on "
             "purpose, ancestor-limit knob, PYTHONHASHSEED 0-3); every applicability verdict, successor valuation and "
             "goal verdict is compared operation by operation with an independent reference interpreter of the "
             "documented semantics working on the descriptor. Sampling, not enumeration.",
        note="Trusted: the reference interpreter sim/refsem.py (about 300 lines, exactly the clauses of the statement); "
             "steps whose outcome the statement leaves open (assignment+increase on one fluent, undefined fluent read "
             "by an effect, lazily vs strictly evaluated undefined reads) are skipped and counted.",
        technique="deterministic simulation: seeded query histories on one simulator instance, with queries that fail in user code, vs executable reference model",
    ),
    "C02": dict(
        section="4.1",
        text="Same runs as C01; history oracles needing no reference semantics: is_applicable iff apply succeeds, "
             "get_applicable_actions equals the set of ground instances on which apply succeeds, is_goal iff no "
             "unsatisfied goals, queries never change the state passed in, and a query re-asked later in the run "
             "(after other queries, including ones that failed internally) gives its first answer again.",
        note="Ground instances are enumerated by the harness from the descriptor; a well-typed query that raises has no "
             "truth value and fails the biconditional.",
        technique="deterministic simulation: seeded interleavings of queries on one simulator instance, with queries that fail in user code, history oracles",
    ),
    "C14": dict(
        section="4.2",
        text="Seeded call histories on one shared Environment (simplify, substitute, type inference, free-variable and "
             "name extraction, quantifier removal, constructions) with injected failures: calls that fail by "
             "themselves inside a walk, interpreted-function callbacks that raise, and MemoryError raised at a chosen "
             "line event inside a walk (sys.settrace); every later call is compared with the same call rebuilt in a "
             "fresh Environment. Thorough tier enumerates every fault position of the faulted call.",
        note="Fault positions are CPython line events; a fault between two bytecodes of one line cannot be placed. "
             "The faulted call itself is not judged.",
        technique="deterministic simulation with fault injection (fault-position enumeration in the thorough tier), fresh-environment reference",
    ),
    "C16": dict(
        section="4.3",
        text="Seeded construction histories (with repetitions, normalisation cases and failing constructions) on one "
             "ExpressionManager; after every construction: same normal form gives the identical object, different "
             "normal forms give distinct objects and ids, every node ever returned still has its recorded operator, "
             "children and payload.",
        note="Trusted: the harness normaliser (documented normalisations only).",
        technique="deterministic simulation: construction histories with rejected and interrupted constructions vs normal-form map",
    ),
    "C22": dict(
        section="4.4",
        text="Seeded model-building histories delivered to an original and its clone(s) (both, or one side only, in "
             "seeded order), including rejected operations; after each operation: same acceptance on both, equal "
             "problems and kinds, and untouched replica unchanged.",
        note="Equality is the library's own __eq__; independence is judged on a harness snapshot of the same object "
             "before/after.",
        technique="deterministic simulation: replicated operation histories with rejected operations, replica-agreement oracle",
    ),
    "C23": dict(
        section="4.4",
        text="Same runs as C22; after every accepted or rejected operation every stored value (explicit initial values, "
             "per-fluent and per-type defaults, effect values, action-instance parameters) is type-compatible by the "
             "harness's own relation, and an operation made faulty by an incompatible value raises and leaves the "
             "snapshot unchanged.",
        note="Atomicity is asserted only for rejections caused by incompatible values, as the statement says.",
        technique="deterministic simulation: state invariant monitored over operation histories with injected rejected operations",
    ),
    "C24": dict(
        section="4.4",
        text="Seeded multisets of effect insertions applied to fresh containers in several permutations (all when <= 4) "
             "- conflict verdict must not depend on order - and a shadow container fed only the accepted insertions "
             "must stay in step with the real one after every rejected insertion.",
        note="The shadow is real code fed a filtered history; no model of the conflict rules is trusted.",
        technique="deterministic simulation: permuted insertion schedules and filtered-history shadow after rejected insertions",
    ),
    "C25": dict(
        section="4.5",
        text="Seeded insertion/copy histories on up to 5 DeltaSimpleTemporalNetwork replicas, compared after every "
             "operation on every replica with Bellman-Ford over the list of inserted constraints (consistency, least "
             "non-negative model, every constraint satisfied, inconsistency is permanent, copies independent).",
        note="No failure clause in the statement, so the only 'fault' is the natural one (becoming inconsistent); this "
             "is a history-vs-reference-model simulation.",
        technique="deterministic simulation: seeded insertion/copy histories over replicas vs Bellman-Ford reference",
    ),
    "C31": dict(
        section="4.6",
        text="The two meta-engines run for real around a stub exact planner on a virtual clock; peer calls fail on "
             "script (TIMEOUT when the virtual budget is exhausted, MEMOUT, INTERNAL_ERROR, UNSOLVABLE_INCOMPLETELY, "
             "raise), the clock jumps, interpreted-function callbacks are table look-ups; plans are re-validated by "
             "the reference interpreter against the original problem, statuses against exhaustive search.",
        note="Stub planner is complete and truthful by construction (breadth-first over the reference semantics); "
             "premise of C31 is provided by the fault-free profile.",
        technique="deterministic simulation: virtual clock, stub peer with injected failures, bounded-progress and truthful-status oracles",
    ),
    "C35": dict(
        section="4.7",
        text="SimulatedExecutionEnvironment with the PRNG seam owned by the script (every candidate hidden state gets "
             "chosen across runs), then agent/environment interaction with refused actions; hidden state checked "
             "against oneof/or constraints by brute force, non-hidden fluents against declared initial values, "
             "observations and goal verdicts against the reference interpreter.",
        note="z3 model enumeration order is neutralised by canonical sorting of the candidates handed to the PRNG shim.",
        technique="deterministic simulation: owned PRNG, two-party action/observation protocol with refused and failing steps, earlier environments in the same process, vs reference model",
    ),
    "C36": dict(
        section="4.8",
        text="Seeded branching update histories on UPState (make_child, state-rewriting observers hash/==/repr, rejected "
             "updates) under ancestor limits 1,2,3,20,None; after every operation every state is read back in full "
             "and compared with a dict per state; == and hash compared with valuation equality.",
        note="Sampling; the knob is set both on UPState itself and through a subclass.",
        technique="deterministic simulation: seeded update/observer histories with randomised tuning knob and failing defaults provider vs map model",
    ),
    "C38": dict(
        section="4.9",
        text="One PDDLWriter instance under seeded call orders (get_domain/get_problem/get_plan/write_*/look-ups) with "
             "stream faults (ENOSPC/EIO at write k, then retry) on problems with adversarial identifiers; after "
             "every operation the two look-ups are mutual inverses, names are valid, non-keyword, injective per namespace.",
        note="PDDL writer only: the ANML writer keeps no state between calls and has no look-up API, its half of C38 is a "
             "pure function of the problem and is not covered.",
        technique="deterministic simulation: call-order histories on one writer with injected stream faults, earlier writers in the same process",
    ),
}

NA = {
    "C03": "validation builds a fresh simulator per call and is a function of (problem, plan); no state, failure, clock, PRNG or peer the verdict depends on",
    "C04": "agreement of two validators on the same (problem, plan): a differential property of two pure functions",
    "C05": "the timeline is plan data evaluated by a pure function; the validator reads no clock",
    "C06": "compiler soundness relates a problem to its compiled form and mapped-back plans; compile is a pure function and nothing survives the call",
    "C07": "same as C06 (completeness direction); needs plan enumeration of two static problems, not a schedule",
    "C08": "well-formedness of one compile result is a function of the input problem",
    "C09": "kind containment is a function of the input problem and a static declaration",
    "C10": "kind is recomputed from the problem on every access; a pure syntactic function",
    "C11": "semantic equivalence of simplify is per expression; its history dependence is exactly C14",
    "C12": "NNF/DNF are computed by walkers created per call; pure",
    "C13": "substitution semantics is per (expression, map); the history side is exercised under C14",
    "C15": "inferred types are a function of the expression; history effects are C14",
    "C17": "linearity analysis is a function of the expression",
    "C18": "write/read equivalence is a function of the problem; files are read whole and no clause concerns partial I/O",
    "C19": "as C18; the ANML writer keeps no state between calls",
    "C20": "protobuf conversion is a function of the object converted",
    "C21": "agreement of two parsers on one text; pure",
    "C26": "plan conversions are functions of (problem, plan)",
    "C27": "linearisations are enumerated from a static graph by a pure function; the code under test runs once, deterministically",
    "C28": "back-conversion is a function of (problem, compiled plan); durations are data",
    "C29": "forward/backward conversion are functions of the plan",
    "C30": "the set of possible initial states is an input to a pure compilation",
    "C32": "engine selection is a function of (registry, preference list, request); the registry is caller-set configuration the factory only reads back, and no clause concerns a failed registration",
    "C33": "algebraic laws over pairs and triples of kinds; no schedule, fault, clock or history in the statement",
    "C34": "ordering extraction is a function of the task network",
    "C37": "as C06, for the multi-agent compilers: pure function of the problem",
}

NOT_BUILT = "claimed in DESIGN.md but its engine is not built yet in this commit (work in progress, not a not-applicable verdict)"


def main():
    props = [json.loads(l)["id"] for l in open(os.path.join(VERIF, "properties.jsonl"))]
    checks = []
    na = []
    engines = {}
    for pid in props:
        if pid in CLAIMED and pid in REGISTRY:
            c = CLAIMED[pid]
            mod, cls = REGISTRY[pid]
            engines.setdefault(mod, []).append(pid)
            m = __import__(f"sim.engines.{mod}", fromlist=[cls])
            eng = getattr(m, cls)(pid)
            checks.append({
                "property_id": pid,
                "quick_cmd": f"timeout 900 {PY} run_check.py {pid} --tier quick",
                "thorough_cmd": f"timeout 7200 {PY} run_check.py {pid} --tier thorough",
                "evidence_file": f"/verif/evidence/{pid}.json",
                "replay_cmd_template": f"{PY} run_check.py {pid} --replay {{path}}",
                "engine": mod,
                "level_claimed": {"category": eng.level_for("thorough"), "text": c["text"],
                                  "design_ref": f"DESIGN.md section {c['section']}"},
                "level_note": c["note"],
                "technique": c["technique"],
            })
        elif pid in CLAIMED:
            na.append({"property_id": pid, "reason": NOT_BUILT})
        else:
            na.append({"property_id": pid, "reason": "not applicable to deterministic simulation: " + NA[pid]})
    man = {
        "version": 1,
        "setup_cmd": f"{PY} selftest_determinism.py --short",
        "hooks": {
            "guard": "UP_VERIF_SIM",
            "enable": "no source hooks are needed: every seam (module attributes time/random/open, UPState.MAX_ANCESTORS, "
                      "sys.settrace, user callables, Factory.add_engine) is reached from the harness; checks import /repo's working tree directly",
            "baseline_off_cmd": "cd /repo && /venv/bin/python -m pytest -ra -q -p no:cacheprovider --timeout=900 --continue-on-collection-errors",
            "source_commits": [],
            "add_only": True,
        },
        "engines": [{"name": k, "path": f"sim/engines/{k}.py", "serves_properties": v,
                     "kind_free_text": "deterministic simulation engine (seeded script generator + executor + oracles)"}
                    for k, v in sorted(engines.items())],
        "checks": checks,
        "not_applicable": na,
        "notes": "All checks: `run_check.py <id> --tier quick|thorough`; exit 0 = held on everything explored, exit 1 + "
                 "VIOLATION line = violation with minimised replay, exit 2 = harness error (never a verdict). "
                 "VERIF_SEED selects the batch. known_findings.json lists recorded/fixed defects.",
    }
    with open(os.path.join(VERIF, "MANIFEST.json"), "w") as f:
        json.dump(man, f, indent=1)
    print(f"{len(checks)} checks, {len(na)} not claimed")


if __name__ == "__main__":
    main()
