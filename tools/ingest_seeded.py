#!/venv/bin/python
"""ingest_seeded.py <id> <prop> <worktree> "<what it needs to manifest>"
Copies an independently written breaking change into seeded/<id>/ and confirms the claims made
for it in a scratch copy of /repo (outside /repo and /verif, removed afterwards):
  demo fails with the change, passes without, the repository's test suite passes with it."""
import json, os, shutil, subprocess, sys, tempfile, time

sid, prop, wt, needs = sys.argv[1:5]
VERIF = os.path.dirname(os.path.dirname(os.path.abspath(__file__)))
dst = os.path.join(VERIF, "seeded", sid)
os.makedirs(dst, exist_ok=True)
shutil.copy(os.path.join(wt, "seeded.patch"), os.path.join(dst, "patch.diff"))
shutil.copy(os.path.join(wt, "demo.py"), os.path.join(dst, "demo.py"))
if os.path.exists(os.path.join(wt, "NOTE.md")):
    shutil.copy(os.path.join(wt, "NOTE.md"), os.path.join(dst, "NOTE.md"))
scr = tempfile.mkdtemp(prefix=f"scr-{sid}-")
ran = []
try:
    subprocess.run(f"git -C /repo archive HEAD | tar -x -C {scr}", shell=True, check=True)
    env = dict(os.environ, PYTHONPATH=scr, PYTHONWARNINGS="ignore")
    r0 = subprocess.run(["/venv/bin/python", os.path.join(dst, "demo.py")], cwd=scr, env=env, capture_output=True, text=True, timeout=900)
    ran.append({"cmd": "demo.py on unchanged copy", "exit": r0.returncode})
    p = subprocess.run(["git", "apply", "--unsafe-paths", "--directory", scr, os.path.join(dst, "patch.diff")], capture_output=True, text=True)
    if p.returncode != 0:
        p = subprocess.run(["patch", "-p1", "-s", "-i", os.path.join(dst, "patch.diff")], cwd=scr, capture_output=True, text=True)
    ran.append({"cmd": "apply patch.diff", "exit": p.returncode, "err": (p.stdout + p.stderr)[-300:]})
    r1 = subprocess.run(["/venv/bin/python", os.path.join(dst, "demo.py")], cwd=scr, env=env, capture_output=True, text=True, timeout=900)
    ran.append({"cmd": "demo.py on changed copy", "exit": r1.returncode, "out": (r1.stdout + r1.stderr)[-400:]})
    t0 = time.time()
    t = subprocess.run(["/venv/bin/python", "-m", "pytest", "-q", "-p", "no:cacheprovider", "--timeout=900",
                        "--continue-on-collection-errors"], cwd=scr, env=env, capture_output=True, text=True, timeout=7200)
    tail = [l for l in t.stdout.splitlines() if " passed" in l or " failed" in l or " error" in l][-1:]
    ran.append({"cmd": "repository test suite on changed copy", "exit": t.returncode, "summary": tail, "wall_s": round(time.time() - t0)})
finally:
    shutil.rmtree(scr, ignore_errors=True)
ok = ran[0]["exit"] == 0 and ran[1]["exit"] == 0 and ran[2]["exit"] != 0 and ran[3]["exit"] == 0
meta = {"id": sid, "property": prop, "needs": needs, "written_by": "independent sub-agent given only the property text and a scratch worktree",
        "confirmed": ok, "ran": ran}
json.dump(meta, open(os.path.join(dst, "meta.json"), "w"), indent=1)
print(json.dumps(meta, indent=1))
if not ok:
    print("NOT CONFIRMED")
    sys.exit(1)
