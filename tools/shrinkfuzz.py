#!/venv/bin/python
"""shrinkfuzz.py <prop> [--n N] [--workers W] [--seed S] [--out DIR]

Self-test of the machinery against its own minimiser.  A minimised replay is a script the
generator would never emit: operations dropped, world lists pruned, sub-expressions hoisted,
integers shrunk.  If such a script violates the property ON THE UNCHANGED TREE, either the library
has a defect the generator cannot reach, or (more often) the executor / reference model cannot
cope with a degenerate script and a minimised replay of a real regression would be reported as
failing on the clean tree too.  This tool applies 1-8 random minimiser moves to generated
scripts and executes them on /repo; every violation that is not a recorded known finding is
printed and saved.  Exit 0 if none, 1 otherwise.  Deterministic in (--seed, --n)."""
import argparse, copy, json, os, random, sys

sys.path.insert(0, os.path.dirname(os.path.dirname(os.path.abspath(__file__))))


def moves(rng, s):
    from sim.runner import _paths, _get, _set
    s = copy.deepcopy(s)
    for _ in range(rng.randint(1, 8)):
        kind = rng.choice(["drop_op", "drop_op", "drop_elem", "drop_elem", "hoist", "hoist", "int", "unfault"])
        try:
            if kind == "drop_op" and isinstance(s.get("ops"), list) and s["ops"]:
                i = rng.randrange(len(s["ops"]))
                n = rng.choice([1, 1, 2, 4])
                del s["ops"][i:i + n]
            elif kind == "unfault":
                cands = [op for op in s.get("ops", []) if isinstance(op, dict) and op.get("fault")]
                if cands:
                    del rng.choice(cands)["fault"]
            elif kind == "drop_elem":
                lists = [(p, n) for p, n in _paths(s) if isinstance(n, list) and n and p and p != ("ops",)
                         and not isinstance(n[0], str)]
                if lists:
                    p, n = rng.choice(lists)
                    del n[rng.randrange(len(n))]
            elif kind == "hoist":
                exprs = [(p, n) for p, n in _paths(s) if isinstance(n, list) and n and p and isinstance(n[0], str)
                         and n[0] not in ("exists", "forall")
                         and any(isinstance(c, list) and c and isinstance(c[0], str) for c in n[1:])]
                if exprs:
                    p, n = rng.choice(exprs)
                    c = rng.choice([c for c in n[1:] if isinstance(c, list) and c and isinstance(c[0], str)])
                    _set(s, p, copy.deepcopy(c))
            elif kind == "int":
                spots = []
                for p, n in _paths(s):
                    if p and p[0] == "knobs":
                        continue
                    if isinstance(n, list) and len(n) == 3 and n and n[0] in ("int", "real"):
                        continue
                    items = n.items() if isinstance(n, dict) else enumerate(n)
                    for k, v in items:
                        if isinstance(v, bool) or not isinstance(v, int):
                            continue
                        if k in ("seed", "knobs") or (not p and k in ("pick", "perm_seed")):
                            continue
                        if v not in (0, 1):
                            spots.append((p, k, v))
                if spots:
                    p, k, v = rng.choice(spots)
                    _get(s, p)[k] = rng.choice([0, 1, v // 2])
        except (KeyError, IndexError, TypeError):
            continue
    return s


def work(args):
    prop, lo, hi, seed = args
    import warnings
    warnings.simplefilter("ignore")
    from sim import runner
    from sim.core import HarnessError, BuildError
    eng = runner.get_engine(prop)
    runner.warmup(eng)
    known = runner.load_known()
    profs = eng.profiles("quick")
    out = []
    stats = {"execs": 0, "discarded": 0, "unrunnable": 0, "violations": 0, "known": 0}
    for r in range(lo, hi):
        rng = random.Random(seed * 1_000_003 + r)
        try:
            base = eng.generate(seed * 1_000_003 + r, profs[r % len(profs)], "quick")
        except Exception:
            continue
        base.setdefault("seed", seed * 1_000_003 + r)
        cand = moves(rng, base)
        try:
            res = runner.execute_script(eng, cand)
        except (HarnessError, BuildError):
            stats["discarded"] += 1
            continue
        except Exception:
            # the executor cannot run this script at all: the minimiser rejects such a candidate
            stats["unrunnable"] += 1
            continue
        stats["execs"] += 1
        v = res["violation"]
        if v is None:
            continue
        if runner.match_known(known, prop, v, cand):
            stats["known"] += 1
            continue
        stats["violations"] += 1
        out.append({"r": r, "violation": v, "script": cand})
    return stats, out


def main():
    ap = argparse.ArgumentParser()
    ap.add_argument("prop")
    ap.add_argument("--n", type=int, default=4000)
    ap.add_argument("--workers", type=int, default=16)
    ap.add_argument("--seed", type=int, default=77)
    ap.add_argument("--out", default="/tmp/shrinkfuzz")
    a = ap.parse_args()
    import multiprocessing as mp
    from concurrent.futures import ProcessPoolExecutor
    step = (a.n + a.workers - 1) // a.workers
    jobs = [(a.prop, i * step, min(a.n, (i + 1) * step), a.seed) for i in range(a.workers)]
    tot = {"execs": 0, "discarded": 0, "unrunnable": 0, "violations": 0, "known": 0}
    found = []
    with ProcessPoolExecutor(a.workers, mp_context=mp.get_context("fork")) as ex:
        for stats, out in ex.map(work, jobs):
            for k in tot:
                tot[k] += stats[k]
            found += out
    os.makedirs(a.out, exist_ok=True)
    classes = {}
    for f in found:
        key = (f["violation"]["oracle"], f["violation"]["cls"])
        classes.setdefault(key, []).append(f)
    for key, fs in sorted(classes.items(), key=str):
        f = min(fs, key=lambda x: len(json.dumps(x["script"])))
        path = os.path.join(a.out, f"{a.prop}-{f['r']}.json")
        s = dict(f["script"], prop=a.prop)
        json.dump(s, open(path, "w"), indent=1, sort_keys=True)
        print(f"{a.prop} {key} x{len(fs)} smallest={path}")
        print("   ", f["violation"]["detail"][:400])
    print(f"{a.prop} shrinkfuzz {tot}")
    return 1 if found else 0


if __name__ == "__main__":
    sys.exit(main())
