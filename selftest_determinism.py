#!/venv/bin/python
"""Determinism self-test: one seed = one execution.

For every built engine the same seeds are executed several times -- in different
worker processes, at different positions inside a worker (worker counts 4 and 16),
and under different PYTHONHASHSEED values -- and the event-log digests must be
identical.  Every replay file under replays/ is re-executed and must either
reproduce exactly (signature and digest) or pass (defect since fixed).

  selftest_determinism.py --short     (setup_cmd: 48 seeds per engine, two layouts)
  selftest_determinism.py [--seeds N] (full: 400 seeds, four layouts)
"""
import argparse, glob, io, json, os, subprocess, sys, contextlib

VERIF = os.path.dirname(os.path.abspath(__file__))
sys.path.insert(0, VERIF)
from sim import runner  # noqa
from sim.engines import REGISTRY  # noqa


def digests(prop, n, W, shift, tier):
    buf = io.StringIO()
    with contextlib.redirect_stdout(buf):
        status, out = runner.run_batch(prop, tier, nruns=n, budget_s=3600, workers=W, keep_digests=True,
                                       write_evidence=False, quiet=True, hs_shift=shift)
    if out is None:
        print(buf.getvalue())
        raise SystemExit(f"determinism self-test: batch for {prop} failed (status {status})")
    ev, aggs = out
    d = {}
    for a in aggs:
        for k, v in a["digests"].items():
            d[k] = (v, a["hashseed"], a["w"])
    return d


def main():
    ap = argparse.ArgumentParser()
    ap.add_argument("--short", action="store_true")
    ap.add_argument("--seeds", type=int)
    ap.add_argument("props", nargs="*")
    a = ap.parse_args()
    n = a.seeds or (48 if a.short else 400)
    layouts = [(4, 0), (4, 1)] if a.short else [(4, 0), (16, 1), (16, 2), (5, 3)]
    bad = 0
    for prop in sorted(REGISTRY):
        if a.props and prop not in a.props:
            continue
        for tier in (["quick"] if a.short else ["quick", "thorough"]):
            nn = n if tier == "quick" else max(8, n // 10)
            base = None
            for W, shift in layouts:
                d = digests(prop, nn, W, shift, tier)
                if base is None:
                    base = d
                    continue
                if set(d) != set(base):
                    print(f"DIVERGED {prop}/{tier}: different sets of executions ({len(d)} vs {len(base)})")
                    bad += 1
                    continue
                diff = [k for k in sorted(base) if base[k][0] != d[k][0]]
                for k in diff[:5]:
                    print(f"DIVERGED {prop}/{tier} seed {k}: {base[k]} vs {d[k]}")
                bad += len(diff)
            print(f"determinism {prop}/{tier}: {len(base)} executions x {len(layouts)} layouts "
                  f"(workers/hashseed shifts {layouts}) -> {'OK' if not bad else 'FAILED'}", flush=True)
    # replays
    for path in sorted(glob.glob(os.path.join(VERIF, "replays", "*.json"))):
        prop = json.load(open(path))["prop"]
        if prop not in REGISTRY:
            continue
        p = subprocess.run([sys.executable, os.path.join(VERIF, "run_check.py"), prop, "--replay", path, "--quiet"],
                           capture_output=True, text=True)
        if "REPLAY reproduced" in p.stdout or "REPLAY passed" in p.stdout:
            continue
        print(f"REPLAY DIVERGED {path}:\n{p.stdout[-800:]}{p.stderr[-800:]}")
        bad += 1
    print("determinism self-test:", "OK" if not bad else f"FAILED ({bad})")
    return 1 if bad else 0


if __name__ == "__main__":
    sys.exit(main())
